//! C08 – generated answers are valid answers to the offer they respond to (`sdp_neg`).
//!
//! Real code driven: `PeerConnection::set_remote_description(offer)` → `create_answer()` →
//! `set_local_description(answer)`, `create_offer()`, `SessionDescription::parse/to_sdp_string`.
//!
//! Oracle: an independent, line-based reader of the SDP *text* (section "oracle-side SDP reader"
//! below; rustrtc's parser is never used to judge an answer) plus the RFC 3264 / JSEP answer
//! relation restricted to exactly the clauses of the property statement:
//!   same number / order / kind / mid of m-sections; per audio/video section every answered
//!   payload type was offered in that section (and is bound to the same codec where both sides
//!   say which codec it is); every answered RTX (pt, apt) pair was offered; every answered
//!   extmap (id, uri) was offered for that section, no id twice; rtcp-mux only if offered;
//!   BUNDLE membership only as offered; direction compatible; DTLS setup acceptable.
//! It is applied only when set_remote_description(offer) and create_answer() both returned Ok.
//! Round trip: for every description the stack parsed or produced,
//!   print(parse(print(d))) == print(d) and canon(parse(print(d))) == canon(d).
//!
//! Whatever the statement is silent about (ports, fmtp contents, rtcp-fb, ssrc lines, crypto,
//! candidate lines, attribute order) is accepted.

use crate::common::*;
use rustrtc::{
    AudioCapability, MediaCapabilities, MediaKind, PeerConnection, RtcConfiguration,
    RtcpMuxPolicy, RtpCodecParameters, SdpCompatibilityMode, SdpType, SessionDescription,
    TransceiverDirection, TransportMode, VideoCapability,
};
use serde_json::{Value, json};
use std::collections::{BTreeMap, BTreeSet};
use std::sync::Arc;

// =====================================================================================
// oracle-side SDP reader (independent of rustrtc::sdp)
// =====================================================================================

#[derive(Clone, Debug, Default)]
struct OSec {
    kind: String,
    port: String,
    proto: String,
    fmts: Vec<String>,
    attrs: Vec<(String, Option<String>)>,
}

#[derive(Clone, Debug, Default)]
struct ODesc {
    sess: Vec<(String, Option<String>)>,
    secs: Vec<OSec>,
}

fn split_attr(v: &str) -> (String, Option<String>) {
    match v.find(':') {
        Some(i) => (v[..i].to_string(), Some(v[i + 1..].to_string())),
        None => (v.to_string(), None),
    }
}

fn read_sdp(text: &str) -> ODesc {
    let mut d = ODesc::default();
    for raw in text.split('\n') {
        let line = raw.trim_end_matches('\r').trim();
        if line.len() < 2 || line.as_bytes()[1] != b'=' {
            continue;
        }
        let (ty, val) = (&line[..1], &line[2..]);
        match ty {
            "m" => {
                let mut it = val.split_whitespace();
                let mut s = OSec::default();
                s.kind = it.next().unwrap_or("").to_string();
                s.port = it.next().unwrap_or("").to_string();
                s.proto = it.next().unwrap_or("").to_string();
                s.fmts = it.map(|x| x.to_string()).collect();
                d.secs.push(s);
            }
            "a" => {
                let a = split_attr(val);
                match d.secs.last_mut() {
                    Some(s) => s.attrs.push(a),
                    None => d.sess.push(a),
                }
            }
            _ => {}
        }
    }
    d
}

const DIRS: [&str; 4] = ["sendrecv", "sendonly", "recvonly", "inactive"];

impl OSec {
    fn vals<'a>(&'a self, key: &'a str) -> impl Iterator<Item = &'a str> + 'a {
        self.attrs
            .iter()
            .filter(move |(k, _)| k == key)
            .filter_map(|(_, v)| v.as_deref())
    }
    fn has(&self, key: &str) -> bool {
        self.attrs.iter().any(|(k, _)| k == key)
    }
    fn mid(&self) -> Option<String> {
        self.vals("mid").last().map(|s| s.to_string())
    }
    fn dir(&self) -> Option<&'static str> {
        let mut d = None;
        for (k, _) in &self.attrs {
            if let Some(x) = DIRS.iter().find(|x| **x == k.as_str()) {
                d = Some(*x);
            }
        }
        d
    }
    fn is_rtp(&self) -> bool {
        self.kind == "audio" || self.kind == "video"
    }
    /// rejected m-section (RFC 3264 §6: port 0), unless it is a bundle-only section.
    fn rejected(&self) -> bool {
        self.port == "0" && !self.has("bundle-only")
    }
    /// explicit rtpmap binding of a PT: (lower-case name, clock, channels)
    fn rtpmap(&self, pt: u32) -> Option<(String, String, u32)> {
        for v in self.vals("rtpmap") {
            let mut it = v.split_whitespace();
            let (Some(p), Some(enc)) = (it.next(), it.next()) else {
                continue;
            };
            if p.parse::<u32>().ok() != Some(pt) {
                continue;
            }
            let mut e = enc.split('/');
            let name = e.next().unwrap_or("").to_ascii_lowercase();
            let clock = e.next().unwrap_or("").to_string();
            let ch = e.next().and_then(|c| c.parse().ok()).unwrap_or(1);
            let ch = if self.kind == "audio" { ch } else { 1 };
            return Some((name, clock, ch));
        }
        None
    }
    /// what a PT means in this section: explicit rtpmap, else RFC 3551 static table, else unknown
    fn binding(&self, pt: u32) -> Option<(String, String, u32)> {
        self.rtpmap(pt).or_else(|| static_pt(pt))
    }
    /// (rtx pt, apt) pairs: rtpmap name "rtx" + fmtp apt=
    fn rtx_pairs(&self) -> BTreeSet<(u32, u32)> {
        let mut out = BTreeSet::new();
        for v in self.vals("fmtp") {
            let Some((p, rest)) = v.split_once(' ') else {
                continue;
            };
            let Ok(pt) = p.trim().parse::<u32>() else {
                continue;
            };
            if self.rtpmap(pt).map(|b| b.0) != Some("rtx".into()) {
                continue;
            }
            for part in rest.split(';') {
                if let Some(x) = part.trim().strip_prefix("apt=") {
                    if let Ok(apt) = x.trim().parse::<u32>() {
                        out.insert((pt, apt));
                    }
                }
            }
        }
        out
    }
    /// (id, uri) of every extmap line
    fn extmaps(&self) -> Vec<(String, String)> {
        extmaps_of(&self.attrs)
    }
}

fn extmaps_of(attrs: &[(String, Option<String>)]) -> Vec<(String, String)> {
    let mut out = vec![];
    for (k, v) in attrs {
        if k != "extmap" {
            continue;
        }
        let Some(v) = v else { continue };
        let mut it = v.split_whitespace();
        let (Some(id), Some(uri)) = (it.next(), it.next()) else {
            continue;
        };
        let id = id.split('/').next().unwrap_or("").to_string();
        out.push((id, uri.to_string()));
    }
    out
}

fn static_pt(pt: u32) -> Option<(String, String, u32)> {
    let (n, c, ch) = match pt {
        0 => ("pcmu", "8000", 1),
        3 => ("gsm", "8000", 1),
        4 => ("g723", "8000", 1),
        8 => ("pcma", "8000", 1),
        9 => ("g722", "8000", 1),
        13 => ("cn", "8000", 1),
        15 => ("g728", "8000", 1),
        18 => ("g729", "8000", 1),
        26 => ("jpeg", "90000", 1),
        31 => ("h261", "90000", 1),
        32 => ("mpv", "90000", 1),
        34 => ("h263", "90000", 1),
        _ => return None,
    };
    Some((n.to_string(), c.to_string(), ch))
}

impl ODesc {
    fn sess_vals<'a>(&'a self, key: &'a str) -> impl Iterator<Item = &'a str> + 'a {
        self.sess
            .iter()
            .filter(move |(k, _)| k == key)
            .filter_map(|(_, v)| v.as_deref())
    }
    fn sess_dir(&self) -> Option<&'static str> {
        let mut d = None;
        for (k, _) in &self.sess {
            if let Some(x) = DIRS.iter().find(|x| **x == k.as_str()) {
                d = Some(*x);
            }
        }
        d
    }
    fn bundle_groups(&self) -> Vec<Vec<String>> {
        self.sess_vals("group")
            .filter_map(|v| {
                let mut it = v.split_whitespace();
                if it.next() == Some("BUNDLE") {
                    Some(it.map(|s| s.to_string()).collect())
                } else {
                    None
                }
            })
            .collect()
    }
    /// effective setup of section i: media level, else session level
    fn setup(&self, i: usize) -> Option<(String, &'static str)> {
        if let Some(v) = self.secs[i].vals("setup").last() {
            return Some((v.trim().to_string(), "media"));
        }
        self.sess_vals("setup")
            .last()
            .map(|v| (v.trim().to_string(), "session"))
    }
}

// =====================================================================================
// the answer relation
// =====================================================================================

#[derive(Clone, Debug)]
struct Viol {
    key: String,
    what: String,
    detail: Value,
}

#[derive(Default)]
struct Obs {
    counts: BTreeMap<String, u64>,
    seen: BTreeSet<(String, String)>,
}
impl Obs {
    fn c(&mut self, k: &str) {
        *self.counts.entry(k.to_string()).or_insert(0) += 1;
    }
    fn s(&mut self, set: &str, item: String) {
        self.seen.insert((set.to_string(), item));
    }
}

/// Key refinement for the one case in which rustrtc does intersect (audio, subsequent negotiation):
/// does the local audio configuration share any codec (name, clock, channels) with the offered
/// section? Computed from the scenario's configuration; affects the key only.
fn isect_class(cfg: &Value, os: &OSec, neg: &str) -> &'static str {
    if neg != "subsequent" || os.kind != "audio" {
        return "";
    }
    let mut local: Vec<(String, String, u32)> = vec![];
    if let Some(a) = cfg["caps"]["audio"].as_array() {
        for c in a {
            local.push((
                c["name"].as_str().unwrap_or("").to_ascii_lowercase(),
                c["clock"].as_u64().unwrap_or(0).to_string(),
                c["ch"].as_u64().unwrap_or(1) as u32,
            ));
        }
    }
    if local.is_empty() {
        local.push(("opus".into(), "48000".into(), 2));
    }
    let common = os
        .fmts
        .iter()
        .filter_map(|f| f.parse::<u32>().ok())
        // bound by an explicit rtpmap, or one of the four static numbers every SIP stack knows;
        // rarer static numbers without rtpmap (3 GSM, 13 CN, ...) count as "not in common"
        .filter_map(|pt| os.rtpmap(pt).or_else(|| if matches!(pt, 0 | 8 | 9 | 18) { static_pt(pt) } else { None }))
        .any(|b| local.contains(&b));
    match (common, os.mid().is_some()) {
        (false, _) => ",local_offer_intersection=empty",
        (true, false) => ",local_offer_intersection=nonempty,offer_mid=absent",
        (true, true) => ",local_offer_intersection=nonempty,offer_mid=present",
    }
}

/// `neg` is "first" (no description was ever applied before this offer) or "subsequent".
/// `cfg` (the local configuration of the scenario) is used only to *classify* a violation in
/// its key (which class of configuration produced it), never to decide whether there is one.
/// `remote_role`: the DTLS role ("active"/"passive") the remote party already holds from an earlier
/// completed negotiation of this session, if any. A re-offer whose a=setup contradicts the
/// offerer's own established role (neither actpass nor that role) is not a well-formed re-offer
/// (RFC 8842 §5.2), so the setup clause is not judged for it.
fn check_answer(offer: &str, answer: &str, neg: &str, cfg: &Value, remote_role: Option<&str>, obs: &mut Obs) -> Vec<Viol> {
    let o = read_sdp(offer);
    let a = read_sdp(answer);
    let mut v: Vec<Viol> = vec![];
    let mut push = |key: String, what: String, detail: Value| {
        if !v.iter().any(|x: &Viol| x.key == key) {
            v.push(Viol { key, what, detail });
        }
    };

    // number of m-sections
    obs.c("clause.section_count");
    if o.secs.len() != a.secs.len() {
        push(
            format!("rule=section_count,negotiation={neg}"),
            format!("offer has {} m-sections, answer has {}", o.secs.len(), a.secs.len()),
            json!({"offered": o.secs.len(), "answered": a.secs.len()}),
        );
        return v;
    }

    let o_groups = o.bundle_groups();
    let a_groups = a.bundle_groups();

    for (i, (os, as_)) in o.secs.iter().zip(a.secs.iter()).enumerate() {
        let kind = os.kind.as_str();
        // order / kind
        obs.c("clause.kind");
        if os.kind != as_.kind {
            push(
                format!("rule=kind_mismatch,negotiation={neg},offer_kind={},answer_kind={}", os.kind, as_.kind),
                format!("section {i}: offered m={} answered m={}", os.kind, as_.kind),
                json!({"section": i}),
            );
            continue;
        }
        // mid: identical, or absent on both sides
        obs.c("clause.mid");
        let (om, am) = (os.mid(), as_.mid());
        if om != am {
            let cls = |m: &Option<String>| if m.is_some() { "present" } else { "absent" };
            let rel = if om.is_some() && am.is_some() { ",values=differ" } else { "" };
            // configuration class (for the key only): rustrtc strips mids on purpose in LegacySip
            // mode and when it answers a multi-section offer that carries no BUNDLE group
            let class = if cfg["compat"] == "legacy" {
                "legacy_sip"
            } else if o_groups.is_empty() && o.secs.len() > 1 {
                "no_bundle_multi_section"
            } else {
                "other"
            };
            push(
                format!(
                    "rule=mid_mismatch,negotiation={neg},offer_mid={},answer_mid={}{rel},class={class}",
                    cls(&om),
                    cls(&am)
                ),
                format!("section {i} ({kind}): offered mid {:?}, answered mid {:?}", om, am),
                json!({"section": i, "offer_mid": om, "answer_mid": am}),
            );
        }
        obs.s("mid_scheme", format!("{}", match &om { None => "absent", Some(m) if m.parse::<u32>().is_ok() => "numeric", _ => "text" }));

        let rejected = as_.rejected();
        if rejected {
            obs.c("answer.rejected_sections");
        }

        // payload types, RTX, extmap: RTP sections that are not rejected
        if as_.is_rtp() && !rejected {
            for f in &as_.fmts {
                let Ok(pt) = f.parse::<u32>() else { continue };
                obs.c("clause.format");
                if !os.fmts.iter().any(|x| x.parse::<u32>().ok() == Some(pt)) {
                    let same_codec_other_pt = as_.binding(pt).map(|b| {
                        os.fmts
                            .iter()
                            .filter_map(|x| x.parse::<u32>().ok())
                            .any(|p| os.binding(p).as_ref() == Some(&b))
                    });
                    push(
                        format!("rule=format_not_offered,negotiation={neg},kind={kind}{}", isect_class(cfg, os, neg)),
                        format!(
                            "section {i} ({kind}): answered payload type {pt} ({:?}) is not in the offered format list {:?}",
                            as_.binding(pt),
                            os.fmts
                        ),
                        json!({"section": i, "pt": pt, "answered_binding": format!("{:?}", as_.binding(pt)),
                               "offered_formats": os.fmts, "codec_offered_under_other_pt": same_codec_other_pt}),
                    );
                    continue;
                }
                // same codec, when both sides say what the PT is
                if let (Some(ob), Some(ab)) = (os.binding(pt), as_.binding(pt)) {
                    obs.c("clause.format_binding");
                    if ob != ab {
                        push(
                            format!("rule=format_rtpmap_mismatch,negotiation={neg},kind={kind}{}", isect_class(cfg, os, neg)),
                            format!(
                                "section {i} ({kind}): payload type {pt} offered as {:?} but answered as {:?}",
                                ob, ab
                            ),
                            json!({"section": i, "pt": pt, "offered": format!("{:?}", ob), "answered": format!("{:?}", ab)}),
                        );
                    }
                }
            }
            let opairs = os.rtx_pairs();
            for p in as_.rtx_pairs() {
                obs.c("clause.rtx_pair");
                if !opairs.contains(&p) {
                    push(
                        format!("rule=rtx_apt_not_offered,negotiation={neg},offer_mid={}", if om.is_some() { "present" } else { "absent" }),
                        format!("section {i} ({kind}): answered RTX pt {} apt={} was not offered (offered pairs {:?})", p.0, p.1, opairs),
                        json!({"section": i, "pair": [p.0, p.1]}),
                    );
                }
            }
        }
        if !rejected {
            // header extensions: offered for that section = its extmap lines + session-level ones
            let mut offered = os.extmaps();
            offered.extend(extmaps_of(&o.sess));
            let mut ids = BTreeSet::new();
            for (id, uri) in as_.extmaps() {
                obs.c("clause.extmap");
                if !ids.insert(id.clone()) {
                    push(
                        format!("rule=extmap_duplicate_id,negotiation={neg},offer_mid={}", if om.is_some() { "present" } else { "absent" }),
                        format!("section {i} ({kind}): extension id {id} appears twice in the answer"),
                        json!({"section": i, "id": id}),
                    );
                }
                if !offered.iter().any(|(oi, ou)| *oi == id && *ou == uri) {
                    let sub = if offered.iter().any(|(oi, _)| *oi == id) {
                        "id_offered_for_other_uri"
                    } else if offered.iter().any(|(_, ou)| *ou == uri) {
                        "uri_offered_with_other_id"
                    } else {
                        "neither_offered"
                    };
                    push(
                        format!("rule=extmap_not_offered,negotiation={neg},offer_mid={}", if om.is_some() { "present" } else { "absent" }),
                        format!("section {i} ({kind}): answered extmap {id} {uri} was not offered for this section [{sub}] (offered {:?})", offered),
                        json!({"section": i, "id": id, "uri": uri}),
                    );
                }
            }
            // rtcp-mux
            if as_.has("rtcp-mux") {
                obs.c("clause.rtcp_mux");
                if !os.has("rtcp-mux") {
                    push(
                        format!("rule=rtcp_mux_not_offered,negotiation={neg},kind={kind}"),
                        format!("section {i} ({kind}): answer has a=rtcp-mux, offer section has not"),
                        json!({"section": i}),
                    );
                }
            }
        }
        // BUNDLE membership of this section
        if let Some(m) = &am {
            if a_groups.iter().any(|g| g.contains(m)) {
                obs.c("clause.bundle_member");
                let ok = om.as_ref() == Some(m) && o_groups.iter().any(|g| g.contains(m));
                if !ok {
                    let cls = if o_groups.is_empty() { "no_group_offered" } else { "partial_group_offered" };
                    push(
                        format!("rule=bundle_not_offered,negotiation={neg},class={cls}"),
                        format!("section {i} ({kind}): answer puts mid {m} into BUNDLE {:?}, offered groups {:?}", a_groups, o_groups),
                        json!({"section": i, "mid": m}),
                    );
                }
            }
        }
        // direction
        let (od, olevel) = match os.dir() {
            Some(d) => (d, "media"),
            None => match o.sess_dir() {
                Some(d) => (d, "session"),
                None => ("sendrecv", "default"),
            },
        };
        let ad = as_.dir().or(a.sess_dir()).unwrap_or("sendrecv");
        obs.c("clause.direction");
        obs.s("direction_pairs", format!("{od}->{ad}"));
        let ok = match od {
            "sendrecv" => true,
            "sendonly" => ad == "recvonly" || ad == "inactive",
            "recvonly" => ad == "sendonly" || ad == "inactive",
            _ => ad == "inactive",
        };
        if !ok && !rejected {
            push(
                format!("rule=direction,negotiation={neg},offer_level={olevel},offer_mid={}", if om.is_some() { "present" } else { "absent" }),
                format!("section {i} ({kind}): offered {od} ({olevel} level), answered {ad}"),
                json!({"section": i}),
            );
        }
        // DTLS setup role: judged only when both sides state one
        if let (Some((osu, olevel)), Some((asu, _))) = (o.setup(i), a.setup(i)) {
            if let Some(r) = remote_role {
                if osu != "actpass" && osu != r {
                    obs.c("clause.setup.skipped_reoffer_contradicts_established_role");
                    continue;
                }
            }
            let ok = match osu.as_str() {
                "actpass" => asu == "active" || asu == "passive",
                "active" => asu == "passive",
                "passive" => asu == "active",
                _ => true, // holdconn / unknown tokens: statement silent
            };
            obs.c("clause.setup");
            obs.s("setup_pairs", format!("{osu}({olevel})->{asu}"));
            if !ok && !rejected {
                let agree = (0..o.secs.len()).filter_map(|j| o.setup(j).map(|x| x.0)).collect::<BTreeSet<_>>().len() <= 1;
                push(
                    // offers whose sections ask for different roles are one class of their own
                    if agree {
                        format!("rule=setup,negotiation={neg},offer={osu},offer_level={olevel},sections_agree=yes")
                    } else {
                        format!("rule=setup,negotiation={neg},sections_agree=no")
                    },
                    format!("section {i} ({kind}): offered a=setup:{osu} ({olevel} level), answered a=setup:{asu}"),
                    json!({"section": i}),
                );
            }
        }
    }
    // an answered BUNDLE group although none of its mids is an answered section's mid is covered
    // above per section; a group whose tag names no answered section at all:
    for g in &a_groups {
        for tag in g {
            if !a.secs.iter().any(|s| s.mid().as_ref() == Some(tag)) {
                obs.c("clause.bundle_dangling");
                let offered = o_groups.iter().any(|og| og.contains(tag));
                if !offered {
                    push(
                        format!("rule=bundle_not_offered,negotiation={neg},class=dangling_tag"),
                        format!("answer BUNDLE group {:?} names tag {:?} that the offer did not group", g, tag),
                        json!({"tag": tag}),
                    );
                }
            }
        }
    }
    v
}

// =====================================================================================
// round trip: print(parse(print(d))) == print(d), canon(parse(print(d))) == canon(d)
// =====================================================================================

fn per_key(attrs: &[rustrtc::Attribute]) -> BTreeMap<String, Vec<Option<String>>> {
    let mut m: BTreeMap<String, Vec<Option<String>>> = BTreeMap::new();
    for a in attrs {
        m.entry(a.key.clone()).or_default().push(a.value.clone());
    }
    m
}

/// canon keeps every field; attributes are kept as the value sequence *per key* (the printer
/// moves ICE/DTLS attributes ahead of a=mid, so interleaving across keys is not part of
/// "the same description").
fn canon(d: &SessionDescription) -> Vec<(String, Value)> {
    let mut out: Vec<(String, Value)> = vec![];
    let s = &d.session;
    out.push(("type".into(), json!(d.sdp_type.as_str())));
    out.push(("session.version".into(), json!(s.version)));
    out.push((
        "session.origin".into(),
        json!([
            s.origin.username,
            s.origin.session_id,
            s.origin.session_version,
            format!("{:?}", s.origin.network_type),
            format!("{:?}", s.origin.address_type),
            s.origin.unicast_address
        ]),
    ));
    out.push(("session.name".into(), json!(s.name)));
    out.push(("session.timing".into(), json!([s.timing.start, s.timing.stop])));
    out.push(("session.connection".into(), json!(s.connection)));
    for (k, v) in per_key(&s.attributes) {
        out.push((format!("session.attr:{k}"), json!(v)));
    }
    out.push(("media.count".into(), json!(d.media_sections.len())));
    for (i, m) in d.media_sections.iter().enumerate() {
        let _ = i;
        out.push((format!("media[{i}].kind"), json!(format!("{:?}", m.kind))));
        out.push((format!("media[{i}].mid"), json!(m.mid)));
        out.push((format!("media[{i}].port"), json!(m.port)));
        out.push((format!("media[{i}].protocol"), json!(m.protocol)));
        out.push((format!("media[{i}].formats"), json!(m.formats)));
        out.push((format!("media[{i}].direction"), json!(format!("{:?}", m.direction))));
        out.push((format!("media[{i}].connection"), json!(m.connection)));
        for (k, v) in per_key(&m.attributes) {
            out.push((format!("media[{i}].attr:{k}"), json!(v)));
        }
    }
    out
}

/// strip the section index so that the key is stable: media[3].attr:mid -> media.attr:mid
fn field_class(f: &str) -> String {
    let mut s = String::new();
    let mut skip = false;
    for c in f.chars() {
        match c {
            '[' => skip = true,
            ']' => skip = false,
            _ if skip => {}
            _ => s.push(c),
        }
    }
    s
}

fn check_roundtrip(d: &SessionDescription, source: &str, obs: &mut Obs) -> Vec<Viol> {
    obs.c("roundtrip.checked");
    obs.c(&format!("roundtrip.source.{source}"));
    let s1 = d.to_sdp_string();
    let d2 = match SessionDescription::parse(d.sdp_type, &s1) {
        Ok(x) => x,
        Err(e) => {
            let es = format!("{e:?}");
            let cls: String = es.chars().take_while(|c| c.is_alphanumeric()).collect();
            return vec![Viol {
                key: format!("rule=roundtrip,what=reparse_error,source={source},error={cls}"),
                what: format!("a {source} description prints to text that rustrtc's own parser rejects: {es}"),
                detail: json!({"printed": s1}),
            }];
        }
    };
    // one key per cause: the field of the description that does not survive; when only the
    // text differs (canon equal) the first differing line's prefix
    let s2 = d2.to_sdp_string();
    let (c1, c2) = (canon(d), canon(&d2));
    if c1 != c2 {
        let m1: BTreeMap<_, _> = c1.iter().cloned().collect();
        let m2: BTreeMap<_, _> = c2.iter().cloned().collect();
        let mut field = String::from("?");
        for k in m1.keys().chain(m2.keys()) {
            if m1.get(k) != m2.get(k) {
                field = k.clone();
                break;
            }
        }
        return vec![Viol {
            key: format!("rule=roundtrip,source={source},field={}", field_class(&field)),
            what: format!(
                "parse(print(d)) differs from d in {field}: {:?} became {:?} (print stable: {})",
                m1.get(&field),
                m2.get(&field),
                s1 == s2
            ),
            detail: json!({"printed": s1, "field": field, "before": m1.get(&field), "after": m2.get(&field)}),
        }];
    }
    if s1 != s2 {
        let l1: Vec<&str> = s1.lines().collect();
        let l2: Vec<&str> = s2.lines().collect();
        let at = l1.iter().zip(l2.iter()).position(|(a, b)| a != b).unwrap_or(l1.len().min(l2.len()));
        let line = l1.get(at).copied().unwrap_or("<end>");
        let prefix: String = line.chars().take_while(|c| *c != ':' && *c != ' ').collect();
        return vec![Viol {
            key: format!("rule=roundtrip,source={source},field=print_only:{prefix}"),
            what: format!("print(parse(print(d))) != print(d) at line {at}: {:?} vs {:?}", line, l2.get(at)),
            detail: json!({"first": s1, "second": s2}),
        }];
    }
    vec![]
}

// =====================================================================================
// offer model + renderer (harness-own; produces SDP text)
// =====================================================================================

const FAKE_FP: &str = "sha-256 4A:AD:B9:B1:3F:82:18:3B:54:02:12:DF:3E:5D:49:6B:19:E5:7C:AB:3A:45:E1:0F:C2:5B:1D:0A:9C:2E:71:D3";

#[derive(Clone, Debug)]
struct Codec {
    pt: u8,
    name: String,
    clock: u32,
    ch: Option<u8>,
    fmtp: Option<String>,
    fbs: Vec<String>,
    rtpmap: bool,
}

#[derive(Clone, Debug, Default)]
struct Sec {
    kind: String,
    mid: Option<String>,
    port: u16,
    proto: String,
    codecs: Vec<Codec>,
    raw_fmts: Vec<String>,
    ext: Vec<(u16, String, Option<&'static str>)>,
    dir: Option<&'static str>,
    mux: bool,
    rsize: bool,
    setup: Option<&'static str>,
    ice: bool,
    fingerprint: bool,
    conn: Option<String>,
    extra: Vec<String>,
    bundle_only: bool,
}

#[derive(Clone, Debug, Default)]
struct Offer {
    style: String, // webrtc | rtp | srtp
    sess_version: u64,
    sess_conn: Option<String>,
    sess_lines: Vec<String>, // raw lines after t= (b=, a=...)
    bundle: Option<Vec<String>>,
    sess_ice: bool,
    sess_fp: bool,
    sess_setup: Option<&'static str>,
    sess_dir: Option<&'static str>,
    secs: Vec<Sec>,
}

fn render(o: &Offer) -> String {
    let mut s = String::new();
    let mut l = |x: String| {
        s.push_str(&x);
        s.push_str("\r\n");
    };
    l("v=0".into());
    l(format!("o=- 4611731400430051336 {} IN IP4 127.0.0.1", o.sess_version));
    l("s=-".into());
    if let Some(c) = &o.sess_conn {
        l(format!("c={c}"));
    }
    l("t=0 0".into());
    if let Some(b) = &o.bundle {
        l(format!("a=group:BUNDLE {}", b.join(" ")));
    }
    for x in &o.sess_lines {
        l(x.clone());
    }
    if o.sess_ice {
        l("a=ice-ufrag:rEmU".into());
        l("a=ice-pwd:remotepasswordremotepassw0rd".into());
    }
    if o.sess_fp {
        l(format!("a=fingerprint:{FAKE_FP}"));
    }
    if let Some(x) = o.sess_setup {
        l(format!("a=setup:{x}"));
    }
    if let Some(d) = o.sess_dir {
        l(format!("a={d}"));
    }
    for sec in &o.secs {
        let fmts: Vec<String> = if sec.codecs.is_empty() {
            sec.raw_fmts.clone()
        } else {
            sec.codecs.iter().map(|c| c.pt.to_string()).collect()
        };
        l(format!("m={} {} {} {}", sec.kind, sec.port, sec.proto, fmts.join(" ")));
        if let Some(c) = &sec.conn {
            l(format!("c={c}"));
        }
        if sec.ice {
            l("a=ice-ufrag:rEmU".into());
            l("a=ice-pwd:remotepasswordremotepassw0rd".into());
            l("a=ice-options:trickle".into());
        }
        if sec.fingerprint {
            l(format!("a=fingerprint:{FAKE_FP}"));
        }
        if let Some(x) = sec.setup {
            l(format!("a=setup:{x}"));
        }
        if let Some(m) = &sec.mid {
            l(format!("a=mid:{m}"));
        }
        if sec.bundle_only {
            l("a=bundle-only".into());
        }
        for (id, uri, d) in &sec.ext {
            match d {
                Some(d) => l(format!("a=extmap:{id}/{d} {uri}")),
                None => l(format!("a=extmap:{id} {uri}")),
            }
        }
        if let Some(d) = sec.dir {
            l(format!("a={d}"));
        }
        if sec.mux {
            l("a=rtcp-mux".into());
        }
        if sec.rsize {
            l("a=rtcp-rsize".into());
        }
        for c in &sec.codecs {
            if c.rtpmap {
                match c.ch {
                    Some(ch) => l(format!("a=rtpmap:{} {}/{}/{}", c.pt, c.name, c.clock, ch)),
                    None => l(format!("a=rtpmap:{} {}/{}", c.pt, c.name, c.clock)),
                }
            }
            for fb in &c.fbs {
                l(format!("a=rtcp-fb:{} {}", c.pt, fb));
            }
            if let Some(f) = &c.fmtp {
                l(format!("a=fmtp:{} {}", c.pt, f));
            }
        }
        for x in &sec.extra {
            l(x.clone());
        }
    }
    s
}

fn cd(pt: u8, name: &str, clock: u32, ch: Option<u8>, fmtp: Option<&str>) -> Codec {
    Codec {
        pt,
        name: name.into(),
        clock,
        ch,
        fmtp: fmtp.map(|s| s.into()),
        fbs: vec![],
        rtpmap: true,
    }
}

fn free_pt(used: &BTreeSet<u8>, rng: &mut Rng) -> u8 {
    for _ in 0..64 {
        let p = rng.range(96, 127) as u8;
        if !used.contains(&p) {
            return p;
        }
    }
    (35..=127).find(|p| !used.contains(p)).unwrap_or(127)
}

fn gen_audio_codecs(rng: &mut Rng) -> Vec<Codec> {
    let mut out: Vec<Codec> = vec![];
    let n = rng.range(1, 6) as usize;
    let mut used = BTreeSet::new();
    let mut tried = BTreeSet::new();
    while out.len() < n && tried.len() < 13 {
        let which = rng.below(13);
        if !tried.insert(which) {
            continue;
        }
        let mut c = match which {
            0 => {
                let name = *rng.pick(&["opus", "opus", "opus", "OPUS", "Opus"]);
                let pt = *rng.pick(&[111u8, 111, 111, 109, 96, 100, 120]);
                let f = *rng.pick(&[Some("minptime=10;useinbandfec=1"), Some("minptime=10;useinbandfec=1;stereo=1"), None]);
                cd(pt, name, 48000, Some(2), f)
            }
            1 => {
                let mut c = cd(0, *rng.pick(&["PCMU", "PCMU", "pcmu"]), 8000, None, None);
                c.rtpmap = rng.chance(3, 4);
                c
            }
            2 => {
                let mut c = cd(8, "PCMA", 8000, None, None);
                c.rtpmap = rng.chance(3, 4);
                c
            }
            3 => {
                let mut c = cd(9, "G722", 8000, None, None);
                c.rtpmap = rng.chance(3, 4);
                c
            }
            4 => {
                let mut c = cd(18, "G729", 8000, None, Some("annexb=no"));
                c.rtpmap = rng.chance(3, 4);
                c
            }
            5 => cd(*rng.pick(&[101u8, 101, 126, 110, 97]), "telephone-event", 8000, None, Some(*rng.pick(&["0-16", "0-15"]))),
            6 => cd(*rng.pick(&[110u8, 112]), "telephone-event", 48000, None, Some("0-16")),
            7 => {
                let mut c = cd(13, "CN", 8000, None, None);
                c.rtpmap = rng.bool();
                c
            }
            8 => cd(*rng.pick(&[103u8, 111, 104]), "ISAC", 16000, None, None),
            9 => cd(*rng.pick(&[102u8, 97]), "iLBC", 8000, None, Some("mode=30")),
            10 => cd(63, "red", 48000, Some(2), Some("111/111")),
            11 => cd(*rng.pick(&[96u8, 98, 111]), "AMR-WB", 16000, None, Some("octet-align=1")),
            _ => {
                let mut c = cd(3, "GSM", 8000, None, None);
                c.rtpmap = false;
                c
            }
        };
        if used.contains(&c.pt) {
            if c.pt < 96 {
                continue;
            }
            c.pt = free_pt(&used, rng);
        }
        used.insert(c.pt);
        if rng.chance(1, 10) && c.pt >= 96 {
            c.fbs.push("transport-cc".into());
        }
        out.push(c);
    }
    if out.is_empty() {
        out.push(cd(0, "PCMU", 8000, None, None));
    }
    out
}

fn gen_video_codecs(rng: &mut Rng) -> Vec<Codec> {
    let mut out: Vec<Codec> = vec![];
    let n = rng.range(1, 5) as usize;
    let mut used: BTreeSet<u8> = BTreeSet::new();
    let mut tried = BTreeSet::new();
    let fb_pool = ["goog-remb", "transport-cc", "ccm fir", "nack", "nack pli"];
    while out.len() < n * 2 && tried.len() < 9 {
        let which = rng.below(9);
        if !tried.insert(which) {
            continue;
        }
        let mut c = match which {
            0 => cd(*rng.pick(&[96u8, 96, 100, 120]), *rng.pick(&["VP8", "VP8", "vp8"]), 90000, None, None),
            1 => cd(*rng.pick(&[98u8, 101]), "VP9", 90000, None, Some("profile-id=0")),
            2 => cd(
                *rng.pick(&[102u8, 99, 96, 125, 108]),
                "H264",
                90000,
                None,
                Some(*rng.pick(&[
                    "level-asymmetry-allowed=1;packetization-mode=1;profile-level-id=42e01f",
                    "level-asymmetry-allowed=1;packetization-mode=0;profile-level-id=42001f",
                ])),
            ),
            3 => cd(*rng.pick(&[45u8, 35, 96]), "AV1", 90000, None, Some("level-idx=5;profile=0;tier=0")),
            4 => cd(49, "H265", 90000, None, None),
            5 => cd(116, "red", 90000, None, None),
            6 => cd(117, "ulpfec", 90000, None, None),
            7 => {
                let mut c = cd(34, "H263", 90000, None, None);
                c.rtpmap = rng.bool();
                c
            }
            _ => cd(*rng.pick(&[96u8, 104]), "H264", 90000, None, Some("packetization-mode=1;profile-level-id=42e01f")),
        };
        if used.contains(&c.pt) {
            if c.pt < 96 {
                continue;
            }
            c.pt = free_pt(&used, rng);
        }
        used.insert(c.pt);
        let primary = !matches!(c.name.as_str(), "red" | "ulpfec");
        if primary {
            for fb in fb_pool {
                if rng.chance(2, 3) {
                    c.fbs.push(fb.to_string());
                }
            }
        }
        let (ppt, pclock) = (c.pt, c.clock);
        out.push(c);
        // RTX companion
        if primary && rng.chance(1, 2) {
            let cand = [ppt.wrapping_add(1), 97, 99, 103, 107, 119];
            let mut rpt = 0u8;
            for p in cand {
                if (96..=127).contains(&p) && !used.contains(&p) {
                    rpt = p;
                    break;
                }
            }
            if rpt == 0 {
                rpt = free_pt(&used, rng);
            }
            used.insert(rpt);
            let fm = if rng.chance(1, 5) { format!("apt={ppt};rtx-time=3000") } else { format!("apt={ppt}") };
            let mut r = cd(rpt, *rng.pick(&["rtx", "rtx", "RTX"]), pclock, None, None);
            r.fmtp = Some(fm);
            out.push(r);
        }
        if out.iter().filter(|c| c.name.to_ascii_lowercase() != "rtx").count() >= n {
            break;
        }
    }
    // sometimes group all RTX at the end the way browsers sometimes do not: shuffle order
    if rng.chance(1, 6) {
        rng.shuffle(&mut out);
    }
    out
}

const EXT_AUDIO: [&str; 5] = [
    "urn:ietf:params:rtp-hdrext:ssrc-audio-level",
    "http://www.webrtc.org/experiments/rtp-hdrext/abs-send-time",
    "http://www.ietf.org/id/draft-holmer-rmcat-transport-wide-cc-extensions-01",
    "urn:ietf:params:rtp-hdrext:sdes:mid",
    "urn:ietf:params:rtp-hdrext:csrc-audio-level",
];
const EXT_VIDEO: [&str; 9] = [
    "urn:ietf:params:rtp-hdrext:toffset",
    "http://www.webrtc.org/experiments/rtp-hdrext/abs-send-time",
    "urn:3gpp:video-orientation",
    "http://www.ietf.org/id/draft-holmer-rmcat-transport-wide-cc-extensions-01",
    "http://www.webrtc.org/experiments/rtp-hdrext/playout-delay",
    "urn:ietf:params:rtp-hdrext:sdes:mid",
    "urn:ietf:params:rtp-hdrext:sdes:rtp-stream-id",
    "urn:ietf:params:rtp-hdrext:sdes:repaired-rtp-stream-id",
    "http://www.webrtc.org/experiments/rtp-hdrext/video-content-type",
];

/// extension ids: `global` keeps one id per URI over the whole offer (required under BUNDLE);
/// otherwise ids are drawn per section (legal without BUNDLE) so that the same URI may have
/// different ids in different sections.
fn gen_ext(rng: &mut Rng, pool: &[&str], global: &mut BTreeMap<String, u16>, consistent: bool) -> Vec<(u16, String, Option<&'static str>)> {
    let mut out = vec![];
    if rng.chance(1, 5) {
        return out;
    }
    let mut used: BTreeSet<u16> = BTreeSet::new();
    let two_byte = rng.chance(1, 12);
    for uri in pool {
        if !rng.chance(3, 5) {
            continue;
        }
        let id = if consistent {
            if let Some(id) = global.get(*uri) {
                *id
            } else {
                let mut id;
                loop {
                    id = if two_byte { rng.range(1, 30) as u16 } else { rng.range(1, 14) as u16 };
                    if !global.values().any(|x| *x == id) {
                        break;
                    }
                    if global.len() >= 14 {
                        break;
                    }
                }
                global.insert(uri.to_string(), id);
                id
            }
        } else {
            let mut id;
            let mut n = 0;
            loop {
                id = if two_byte { rng.range(1, 30) as u16 } else { rng.range(1, 14) as u16 };
                n += 1;
                if !used.contains(&id) || n > 50 {
                    break;
                }
            }
            id
        };
        if used.contains(&id) {
            continue;
        }
        used.insert(id);
        let d = if rng.chance(1, 20) { Some(*rng.pick(&["sendonly", "recvonly"])) } else { None };
        out.push((id, uri.to_string(), d));
    }
    if rng.chance(1, 4) {
        rng.shuffle(&mut out);
    }
    out
}

fn gen_mids(rng: &mut Rng, kinds: &[&str]) -> Vec<Option<String>> {
    match rng.below(10) {
        0..=3 => (0..kinds.len()).map(|i| Some(i.to_string())).collect(),
        4 | 5 => {
            let mut seen: BTreeMap<&str, u32> = BTreeMap::new();
            kinds
                .iter()
                .map(|k| {
                    let n = seen.entry(k).or_insert(0);
                    *n += 1;
                    let base = match *k {
                        "application" => "data",
                        x => x,
                    };
                    Some(if *n == 1 { base.to_string() } else { format!("{base}{n}") })
                })
                .collect()
        }
        6 => {
            let start = rng.range(1, 900);
            let step = rng.range(1, 7);
            (0..kinds.len()).map(|i| Some((start + step * i as u64).to_string())).collect()
        }
        7 => (0..kinds.len()).map(|i| Some(format!("m{}-{}", i, rng.below(1000)))).collect(),
        _ => kinds.iter().map(|_| None).collect(),
    }
}

/// `skeleton`: Some(kinds+mids) forces the section list (re-offers of an existing session).
fn gen_offer(rng: &mut Rng, style: &str, skeleton: Option<Vec<(String, Option<String>)>>) -> Offer {
    let mut o = Offer { style: style.into(), sess_version: rng.range(1, 9), ..Default::default() };
    let kinds: Vec<String> = match &skeleton {
        Some(sk) => sk.iter().map(|x| x.0.clone()).collect(),
        None => {
            let n = *rng.pick(&[1usize, 1, 1, 2, 2, 2, 3, 3, 4, 5, 6]);
            let mut ks: Vec<String> = vec![];
            let mut has_app = false;
            for i in 0..n {
                let k = match rng.below(20) {
                    0..=8 => "audio",
                    9..=15 => "video",
                    16..=18 => "application",
                    _ => "image",
                };
                let k = if k == "application" && has_app { "audio" } else { k };
                // SIP styles rarely carry data channels
                let k = if style != "webrtc" && k == "application" && rng.chance(2, 3) { "audio" } else { k };
                let k = if style == "webrtc" && k == "image" { "video" } else { k };
                if k == "application" {
                    has_app = true;
                }
                let _ = i;
                ks.push(k.to_string());
            }
            ks
        }
    };
    let kref: Vec<&str> = kinds.iter().map(|s| s.as_str()).collect();
    let mids: Vec<Option<String>> = match &skeleton {
        Some(sk) => sk.iter().map(|x| x.1.clone()).collect(),
        None => gen_mids(rng, &kref),
    };
    let all_mids = mids.iter().all(|m| m.is_some());
    // BUNDLE: all / partial / absent
    let bundle_mode = if !all_mids {
        0
    } else if style == "webrtc" {
        *rng.pick(&[1, 1, 1, 1, 2, 0])
    } else {
        *rng.pick(&[0, 0, 0, 1, 2])
    };
    o.bundle = match bundle_mode {
        1 => Some(mids.iter().flatten().cloned().collect()),
        2 => {
            let k = rng.range(1, mids.len().max(1) as u64) as usize;
            Some(mids.iter().flatten().take(k).cloned().collect())
        }
        _ => None,
    };
    let consistent_ext = o.bundle.is_some() || rng.chance(1, 2);
    let mut global_ext = BTreeMap::new();

    // session-level placement of transport attributes
    let sess_level = rng.chance(1, 6);
    let setup_vals: [&'static str; 6] = ["actpass", "actpass", "actpass", "actpass", "active", "passive"];
    let setup_all = *rng.pick(&setup_vals);
    let per_section_setup = rng.chance(1, 12);
    let dtls = match style {
        "webrtc" => true,
        _ => rng.chance(1, 10), // a SIP-style offer that still carries a fingerprint
    };
    if dtls && sess_level {
        o.sess_fp = true;
        o.sess_ice = style == "webrtc";
        if rng.chance(2, 3) {
            o.sess_setup = Some(setup_all);
        }
    }
    if style != "webrtc" {
        o.sess_conn = Some(format!("IN IP4 127.0.0.{}", rng.range(2, 250)));
    }
    if rng.chance(1, 3) {
        o.sess_lines.push("a=msid-semantic: WMS *".into());
    }
    if rng.chance(1, 6) {
        o.sess_lines.push("a=extmap-allow-mixed".into());
    }
    if rng.chance(1, 10) {
        o.sess_lines.push("a=ice-options:trickle".into());
    }
    if rng.chance(1, 15) {
        o.sess_lines.push("b=AS:2048".into());
    }
    if rng.chance(1, 25) {
        o.sess_lines.push("a=tool:sdpgen 1.0".into());
    }
    let sess_dir = rng.chance(1, 25);
    if sess_dir {
        o.sess_dir = Some(*rng.pick(&["sendonly", "recvonly", "inactive", "sendrecv"]));
    }
    let mut next_port = 10000 + 2 * rng.below(20000) as u16;
    let mux_all = rng.chance(3, 4);

    for (i, k) in kinds.iter().enumerate() {
        let mut s = Sec { kind: k.clone(), mid: mids[i].clone(), ..Default::default() };
        s.port = if style == "webrtc" { 9 } else { next_port };
        next_port = next_port.wrapping_add(2).max(1024);
        if style == "webrtc" {
            s.conn = Some("IN IP4 0.0.0.0".into());
            if !o.sess_ice {
                s.ice = true;
            }
        } else if rng.chance(1, 5) {
            s.conn = Some(format!("IN IP4 127.0.0.{}", rng.range(2, 250)));
        }
        if dtls && !o.sess_fp {
            s.fingerprint = true;
        }
        if dtls && (o.sess_setup.is_none() || rng.chance(1, 8)) {
            s.setup = Some(if per_section_setup { *rng.pick(&setup_vals) } else { setup_all });
            if rng.chance(1, 30) {
                s.setup = None;
            }
        }
        match k.as_str() {
            "audio" | "video" => {
                s.proto = match style {
                    "webrtc" => "UDP/TLS/RTP/SAVPF".into(),
                    "srtp" => (*rng.pick(&["RTP/SAVP", "RTP/SAVP", "RTP/SAVPF"])).to_string(),
                    _ => (*rng.pick(&["RTP/AVP", "RTP/AVP", "RTP/AVPF"])).to_string(),
                };
                s.codecs = if k == "audio" { gen_audio_codecs(rng) } else { gen_video_codecs(rng) };
                let pool: &[&str] = if k == "audio" { &EXT_AUDIO } else { &EXT_VIDEO };
                if style == "webrtc" || rng.chance(1, 4) {
                    s.ext = gen_ext(rng, pool, &mut global_ext, consistent_ext);
                }
                s.dir = if sess_dir && rng.chance(2, 3) {
                    None
                } else {
                    *rng.pick(&[
                        Some("sendrecv"),
                        Some("sendrecv"),
                        Some("sendrecv"),
                        Some("sendonly"),
                        Some("recvonly"),
                        Some("inactive"),
                        None,
                    ])
                };
                s.mux = if rng.chance(1, 6) { !mux_all } else { mux_all };
                s.rsize = s.mux && rng.chance(1, 3);
                if style != "webrtc" && !s.mux && rng.chance(1, 3) {
                    s.extra.push(format!("a=rtcp:{}", s.port + 1));
                }
                if style == "srtp" || (style == "rtp" && rng.chance(1, 12)) {
                    s.extra.push("a=crypto:1 AES_CM_128_HMAC_SHA1_80 inline:WVNfX19zZW1jdGwgKCkgewkyMjA7fQp9CnVubGVz|2^31|1:1".into());
                    if rng.chance(1, 3) {
                        s.extra.push("a=crypto:2 AES_CM_128_HMAC_SHA1_32 inline:PS1uQCVeeCFCanVmcjkpPywjNWhcYD0mXXtxaVBR".into());
                    }
                }
                let sends = matches!(s.dir, Some("sendrecv") | Some("sendonly") | None);
                if sends && rng.chance(1, 2) {
                    let ssrc = 1000 + rng.below(4_000_000_000) as u32;
                    if style == "webrtc" && rng.bool() {
                        s.extra.push(format!("a=msid:stream{i} track{i}"));
                    }
                    let has_rtx = s.codecs.iter().any(|c| c.name.eq_ignore_ascii_case("rtx"));
                    if has_rtx && rng.chance(2, 3) {
                        s.extra.push(format!("a=ssrc-group:FID {} {}", ssrc, ssrc.wrapping_add(1)));
                        s.extra.push(format!("a=ssrc:{} cname:remoteCname", ssrc));
                        s.extra.push(format!("a=ssrc:{} cname:remoteCname", ssrc.wrapping_add(1)));
                    } else {
                        s.extra.push(format!("a=ssrc:{} cname:remoteCname", ssrc));
                        if rng.chance(1, 3) {
                            s.extra.push(format!("a=ssrc:{} msid:stream{i} track{i}", ssrc));
                        }
                    }
                } else if k == "video" && sends && rng.chance(1, 4) {
                    // simulcast offer (no ssrc lines)
                    s.extra.push("a=rid:hi send".into());
                    s.extra.push("a=rid:mid send".into());
                    s.extra.push("a=rid:lo send".into());
                    s.extra.push("a=simulcast:send hi;mid;lo".into());
                }
                if k == "audio" && rng.chance(1, 6) {
                    s.extra.push("a=ptime:20".into());
                    s.extra.push("a=maxptime:60".into());
                }
                if rng.chance(1, 20) {
                    s.extra.push("b=AS:512".into());
                }
            }
            "application" => {
                if rng.chance(5, 6) {
                    s.proto = (*rng.pick(&["UDP/DTLS/SCTP", "UDP/DTLS/SCTP", "TCP/DTLS/SCTP"])).to_string();
                    s.raw_fmts = vec!["webrtc-datachannel".into()];
                    s.extra.push(format!("a=sctp-port:{}", *rng.pick(&[5000u32, 5000, 5001, 1024])));
                    if rng.bool() {
                        s.extra.push("a=max-message-size:262144".into());
                    }
                } else {
                    s.proto = "DTLS/SCTP".into();
                    s.raw_fmts = vec!["5000".into()];
                    s.extra.push("a=sctpmap:5000 webrtc-datachannel 1024".into());
                }
            }
            _ => {
                s.proto = (*rng.pick(&["udptl", "UDPTL"])).to_string();
                s.raw_fmts = vec!["t38".into()];
                s.extra.push("a=T38FaxVersion:0".into());
                s.extra.push("a=T38MaxBitRate:14400".into());
                s.extra.push("a=T38FaxRateManagement:transferredTCF".into());
                s.extra.push("a=T38FaxMaxBuffer:1024".into());
                s.extra.push("a=T38FaxMaxDatagram:238".into());
                s.extra.push("a=T38FaxUdpEC:t38UDPRedundancy".into());
            }
        }
        if style == "webrtc" && rng.chance(1, 15) {
            s.extra.push(format!("a=candidate:1 1 udp 2130706431 127.0.0.1 {} typ host", 9));
            if rng.bool() {
                s.extra.push("a=end-of-candidates".into());
            }
        }
        // Chrome max-bundle style: bundled sections after the first are port 0 + bundle-only
        if let (Some(b), Some(m)) = (&o.bundle, &s.mid) {
            if i > 0 && b.contains(m) && style == "webrtc" && rng.chance(1, 12) {
                s.port = 0;
                s.bundle_only = true;
            }
        }
        o.secs.push(s);
    }
    o
}

/// A later offer of the same remote party: same sections / mids, changed codecs or directions,
/// possibly a new section appended, possibly a section disabled (port 0).
fn mutate_offer(rng: &mut Rng, prev: &Offer) -> Offer {
    let mut o = prev.clone();
    o.sess_version += 1;
    let n_mut = rng.range(1, 3);
    for _ in 0..n_mut {
        let i = rng.usize_below(o.secs.len());
        let kind = o.secs[i].kind.clone();
        let is_rtp = kind == "audio" || kind == "video";
        match rng.below(8) {
            0 | 1 if is_rtp => {
                o.secs[i].dir = Some(*rng.pick(&["sendrecv", "sendonly", "recvonly", "inactive"]));
            }
            2 if is_rtp => {
                // new codec list
                o.secs[i].codecs = if kind == "audio" { gen_audio_codecs(rng) } else { gen_video_codecs(rng) };
            }
            3 if is_rtp && o.secs[i].codecs.len() > 1 => {
                // drop one codec (and RTX entries pointing at it)
                let backup = o.secs[i].codecs.clone();
                let j = rng.usize_below(o.secs[i].codecs.len());
                let pt = o.secs[i].codecs[j].pt;
                o.secs[i].codecs.remove(j);
                let apt = format!("apt={pt}");
                o.secs[i].codecs.retain(|c| {
                    !(c.name.eq_ignore_ascii_case("rtx")
                        && c.fmtp.as_deref().map(|f| f == apt || f.starts_with(&format!("{apt};"))).unwrap_or(false))
                });
                if !o.secs[i].codecs.iter().any(|c| !c.name.eq_ignore_ascii_case("rtx")) {
                    o.secs[i].codecs = backup;
                }
            }
            4 if is_rtp && o.secs[i].codecs.len() > 1 => {
                let mut cs = o.secs[i].codecs.clone();
                rng.shuffle(&mut cs);
                o.secs[i].codecs = cs;
            }
            5 if is_rtp => {
                o.secs[i].mux = !o.secs[i].mux;
            }
            6 => {
                // append a new section
                if o.secs.len() < 6 {
                    let extra = gen_offer(rng, &prev.style, None);
                    if let Some(mut s) = extra.secs.into_iter().find(|s| s.kind == "audio" || s.kind == "video") {
                        let all_mid = o.secs.iter().all(|s| s.mid.is_some());
                        s.mid = if all_mid { Some(format!("n{}", o.secs.len())) } else { None };
                        s.bundle_only = false;
                        if s.port == 0 {
                            s.port = 9;
                        }
                        s.ice = o.secs[0].ice;
                        s.fingerprint = o.secs[0].fingerprint;
                        s.setup = o.secs[0].setup;
                        if let (Some(b), Some(m)) = (o.bundle.as_mut(), &s.mid) {
                            b.push(m.clone());
                        }
                        o.secs.push(s);
                    }
                }
            }
            7 if is_rtp && o.secs.len() > 1 && i > 0 => {
                // disable the section
                o.secs[i].port = 0;
                o.secs[i].bundle_only = false;
                o.secs[i].dir = Some("inactive");
                if let (Some(b), Some(m)) = (o.bundle.as_mut(), &o.secs[i].mid) {
                    b.retain(|x| x != m);
                }
            }
            _ => {
                if is_rtp {
                    o.secs[i].dir = Some(*rng.pick(&["sendrecv", "sendonly", "recvonly", "inactive"]));
                }
            }
        }
    }
    o
}

// =====================================================================================
// local configuration (JSON <-> RtcConfiguration)
// =====================================================================================

fn acap_json(c: &AudioCapability) -> Value {
    json!({"pt": c.payload_type, "name": c.codec_name, "clock": c.clock_rate, "ch": c.channels, "fmtp": c.fmtp, "fbs": c.rtcp_fbs})
}
fn vcap_json(c: &VideoCapability) -> Value {
    json!({"pt": c.payload_type, "name": c.codec_name, "clock": c.clock_rate, "fmtp": c.fmtp, "fbs": c.rtcp_fbs, "rtx": c.rtx_payload_type})
}

fn build_config(c: &Value) -> RtcConfiguration {
    let mut cfg = RtcConfiguration::default();
    cfg.transport_mode = match c["mode"].as_str().unwrap_or("webrtc") {
        "rtp" => TransportMode::Rtp,
        "srtp" => TransportMode::Srtp,
        _ => TransportMode::WebRtc,
    };
    cfg.sdp_compatibility = if c["compat"].as_str() == Some("legacy") {
        SdpCompatibilityMode::LegacySip
    } else {
        SdpCompatibilityMode::Standard
    };
    cfg.rtcp_mux_policy = if c["mux"].as_str() == Some("negotiate") {
        RtcpMuxPolicy::Negotiate
    } else {
        RtcpMuxPolicy::Require
    };
    cfg.bundle_policy = match c["bundle"].as_str().unwrap_or("") {
        "maxcompat" => rustrtc::BundlePolicy::MaxCompat,
        "maxbundle" => rustrtc::BundlePolicy::MaxBundle,
        _ => rustrtc::BundlePolicy::Balanced,
    };
    cfg.enable_ice_lite = c["ice_lite"].as_bool().unwrap_or(false);
    cfg.bind_ip = Some("127.0.0.1".into());
    if let Some(caps) = c.get("caps").filter(|x| x.is_object()) {
        let mut mc = MediaCapabilities { audio: vec![], video: vec![], application: None, image: vec![] };
        for a in caps["audio"].as_array().cloned().unwrap_or_default() {
            mc.audio.push(AudioCapability {
                payload_type: a["pt"].as_u64().unwrap_or(0) as u8,
                codec_name: a["name"].as_str().unwrap_or("").into(),
                clock_rate: a["clock"].as_u64().unwrap_or(8000) as u32,
                channels: a["ch"].as_u64().unwrap_or(1) as u8,
                fmtp: a["fmtp"].as_str().map(|s| s.to_string()),
                rtcp_fbs: a["fbs"].as_array().map(|v| v.iter().filter_map(|x| x.as_str().map(|s| s.to_string())).collect()).unwrap_or_default(),
            });
        }
        for a in caps["video"].as_array().cloned().unwrap_or_default() {
            mc.video.push(VideoCapability {
                payload_type: a["pt"].as_u64().unwrap_or(96) as u8,
                codec_name: a["name"].as_str().unwrap_or("").into(),
                clock_rate: a["clock"].as_u64().unwrap_or(90000) as u32,
                fmtp: a["fmtp"].as_str().map(|s| s.to_string()),
                rtcp_fbs: a["fbs"].as_array().map(|v| v.iter().filter_map(|x| x.as_str().map(|s| s.to_string())).collect()).unwrap_or_default(),
                rtx_payload_type: a["rtx"].as_u64().map(|x| x as u8),
            });
        }
        if let Some(p) = caps["app"].as_u64() {
            mc.application = Some(rustrtc::ApplicationCapability { sctp_port: p as u16 });
        }
        if caps["image"].as_u64().unwrap_or(0) > 0 {
            mc.image.push(rustrtc::T38Capability::default());
        }
        cfg.media_capabilities = Some(mc);
    }
    cfg
}

fn gen_local_caps(rng: &mut Rng) -> Value {
    let mut audio: Vec<AudioCapability> = vec![];
    let mut apool = vec![
        AudioCapability::opus(),
        AudioCapability::pcmu(),
        AudioCapability::pcma(),
        AudioCapability::g722(),
        AudioCapability::g729(),
        AudioCapability::telephone_event(),
        AudioCapability { payload_type: 109, ..AudioCapability::opus() },
        AudioCapability { payload_type: 126, ..AudioCapability::telephone_event() },
    ];
    rng.shuffle(&mut apool);
    let na = rng.range(0, 4) as usize;
    for c in apool.into_iter() {
        if audio.len() >= na {
            break;
        }
        if audio.iter().any(|x| x.payload_type == c.payload_type) {
            continue;
        }
        audio.push(c);
    }
    let mut video: Vec<VideoCapability> = vec![];
    let mut vpool = vec![
        VideoCapability::default(),
        VideoCapability::h264(),
        VideoCapability::vp8_with_rtx(97),
        VideoCapability { payload_type: 98, codec_name: "VP9".into(), fmtp: Some("profile-id=0".into()), ..VideoCapability::default() },
        VideoCapability { payload_type: 102, ..VideoCapability::h264() },
        VideoCapability { payload_type: 100, rtx_payload_type: Some(101), ..VideoCapability::default() },
    ];
    rng.shuffle(&mut vpool);
    let nv = rng.range(0, 3) as usize;
    for c in vpool.into_iter() {
        if video.len() >= nv {
            break;
        }
        let clash = |p: u8| video.iter().any(|x| x.payload_type == p || x.rtx_payload_type == Some(p));
        if clash(c.payload_type) || c.rtx_payload_type.map(clash).unwrap_or(false) {
            continue;
        }
        video.push(c);
    }
    json!({
        "audio": audio.iter().map(acap_json).collect::<Vec<_>>(),
        "video": video.iter().map(vcap_json).collect::<Vec<_>>(),
        "app": if rng.chance(3, 4) { json!(*rng.pick(&[5000u32, 5000, 6000])) } else { Value::Null },
        "image": rng.below(2),
    })
}

/// local capabilities that are a subset of what the offer proposes (same PT numbers, same
/// codecs) – the class of configurations for which a config-echoing answerer is correct.
fn mirror_caps(rng: &mut Rng, o: &Offer, relabel: bool) -> Value {
    let mut audio = vec![];
    let mut video = vec![];
    if let Some(s) = o.secs.iter().find(|s| s.kind == "audio") {
        for c in &s.codecs {
            if rng.chance(2, 3) || audio.is_empty() {
                let pt = if relabel && c.pt >= 96 { 96 + ((c.pt - 96 + 5) % 32) } else { c.pt };
                audio.push(json!({"pt": pt, "name": c.name, "clock": c.clock, "ch": c.ch.unwrap_or(1), "fmtp": c.fmtp, "fbs": []}));
            }
        }
    }
    if let Some(s) = o.secs.iter().find(|s| s.kind == "video") {
        for c in &s.codecs {
            if c.name.eq_ignore_ascii_case("rtx") {
                continue;
            }
            if rng.chance(2, 3) || video.is_empty() {
                let pt = if relabel && c.pt >= 96 { 96 + ((c.pt - 96 + 5) % 32) } else { c.pt };
                video.push(json!({"pt": pt, "name": c.name, "clock": c.clock, "fmtp": c.fmtp, "fbs": c.fbs, "rtx": null}));
            }
        }
    }
    json!({"audio": audio, "video": video, "app": 5000, "image": 1})
}

fn gen_config(rng: &mut Rng) -> Value {
    let mode = *rng.pick(&["webrtc", "webrtc", "webrtc", "webrtc", "webrtc", "rtp", "rtp", "rtp", "srtp", "srtp"]);
    let compat = if mode == "webrtc" {
        if rng.chance(1, 8) { "legacy" } else { "standard" }
    } else if rng.chance(1, 3) {
        "legacy"
    } else {
        "standard"
    };
    json!({
        "mode": mode,
        "compat": compat,
        "mux": if rng.chance(1, 4) { "negotiate" } else { "require" },
        "bundle": *rng.pick(&["balanced", "balanced", "maxcompat", "maxbundle"]),
        "ice_lite": mode == "rtp" && rng.chance(1, 6),
        "caps": if rng.chance(2, 5) { Value::Null } else { gen_local_caps(rng) },
    })
}

// =====================================================================================
// scenario generator
// =====================================================================================

fn gen_scenario(rng: &mut Rng) -> Value {
    let mut cfg = gen_config(rng);
    let mode = cfg["mode"].as_str().unwrap_or("webrtc").to_string();
    let style = if rng.chance(5, 6) { mode.clone() } else { (*rng.pick(&["webrtc", "rtp", "srtp"])).to_string() };
    let local_first = rng.chance(1, 4);
    let mut pre: Vec<Value> = vec![];
    let mut steps: Vec<Value> = vec![];
    let dirs = ["sendrecv", "sendrecv", "sendonly", "recvonly", "inactive"];

    let answer_spec = |rng: &mut Rng| {
        json!({"op": "local_offer", "answer": {
            "keep": rng.range(1, 3),
            "dir": *rng.pick(&["mirror", "mirror", "inactive", "recvonly"]),
            "setup": *rng.pick(&["active", "passive"]),
            "mux": rng.chance(3, 4),
        }})
    };

    let mut offer: Offer;
    if local_first {
        // we offer first; the remote side re-offers afterwards ("other side" subsequent negotiation)
        let n = rng.range(1, 3) as usize;
        let mut skel: Vec<(String, Option<String>)> = vec![];
        for i in 0..n {
            let kind = *rng.pick(&["audio", "audio", "video", "data"]);
            if kind == "data" && pre.iter().any(|p| p["kind"] == "data") {
                continue;
            }
            pre.push(json!({"kind": kind, "dir": *rng.pick(&dirs), "track": kind != "data" && rng.bool()}));
            let _ = i;
        }
        let legacy = cfg["compat"] == "legacy";
        for (i, p) in pre.iter().enumerate() {
            let k = if p["kind"] == "data" { "application" } else { p["kind"].as_str().unwrap_or("audio") };
            // mids rustrtc will have put into its own offer: numeric in order; none in LegacySip
            // mode or for a multi-section offer without BUNDLE (never the case in Standard mode)
            let mid = if legacy { None } else { Some(i.to_string()) };
            skel.push((k.to_string(), mid));
        }
        steps.push(answer_spec(rng));
        offer = gen_offer(rng, &style, Some(skel));
        steps.push(json!({"op": "remote_offer", "sdp": render(&offer)}));
    } else {
        offer = gen_offer(rng, &style, None);
        steps.push(json!({"op": "remote_offer", "sdp": render(&offer)}));
        // pre-added transceivers / data channel (sometimes matching the offer, sometimes not)
        if rng.chance(2, 5) {
            let mut kinds: Vec<String> = offer.secs.iter().map(|s| s.kind.clone()).collect();
            if rng.chance(1, 4) {
                rng.shuffle(&mut kinds);
            }
            if rng.chance(1, 4) {
                kinds.truncate(1);
            }
            if rng.chance(1, 6) {
                kinds.push((*rng.pick(&["audio", "video"])).to_string());
            }
            for k in kinds {
                match k.as_str() {
                    "audio" | "video" => pre.push(json!({"kind": k, "dir": *rng.pick(&dirs), "track": rng.bool()})),
                    "application" => {
                        if !pre.iter().any(|p| p["kind"] == "data") {
                            pre.push(json!({"kind": "data", "dir": "sendrecv", "track": false}))
                        }
                    }
                    _ => {}
                }
            }
        }
    }
    // mirror configurations: capabilities ⊆ offer (so that clauses other than the codec one are
    // observable on answers whose codec list is legitimate)
    match rng.below(10) {
        0..=2 => cfg["caps"] = mirror_caps(rng, &offer, false),
        3 => cfg["caps"] = mirror_caps(rng, &offer, true),
        _ => {}
    }
    // further negotiations
    let more = *rng.pick(&[0u32, 0, 1, 1, 1, 2, 3]);
    for _ in 0..more {
        if rng.chance(1, 4) {
            steps.push(answer_spec(rng));
        } else {
            offer = if rng.chance(1, 8) { offer.clone() } else { mutate_offer(rng, &offer) };
            steps.push(json!({"op": "remote_offer", "sdp": render(&offer)}));
        }
    }
    json!({"config": cfg, "pre": pre, "steps": steps})
}

/// Directed scenarios: a small matrix that pins down *which* (offer, configuration) classes make
/// the first answer list codecs the offer did not propose. Always run (both tiers).
fn directed_scenarios() -> Vec<Value> {
    let mut out = vec![];
    let audio_offers: Vec<(&str, &str)> = vec![
        ("pcmu_only", "m=audio 4000 RTP/AVP 0\r\na=rtpmap:0 PCMU/8000\r\na=sendrecv\r\n"),
        ("opus111", "m=audio 4000 RTP/AVP 111\r\na=rtpmap:111 opus/48000/2\r\na=sendrecv\r\n"),
        ("opus111_upper", "m=audio 4000 RTP/AVP 111\r\na=rtpmap:111 OPUS/48000/2\r\na=sendrecv\r\n"),
        ("opus109", "m=audio 4000 RTP/AVP 109\r\na=rtpmap:109 opus/48000/2\r\na=sendrecv\r\n"),
        ("isac_at_111", "m=audio 4000 RTP/AVP 111 0\r\na=rtpmap:111 ISAC/16000\r\na=rtpmap:0 PCMU/8000\r\na=sendrecv\r\n"),
        ("opus111_pcmu_dtmf", "m=audio 4000 RTP/AVP 111 0 101\r\na=rtpmap:111 opus/48000/2\r\na=rtpmap:0 PCMU/8000\r\na=rtpmap:101 telephone-event/8000\r\na=fmtp:101 0-16\r\na=sendrecv\r\n"),
        ("pcmu_static_no_rtpmap", "m=audio 4000 RTP/AVP 0 8\r\na=sendrecv\r\n"),
    ];
    let video_offers: Vec<(&str, &str)> = vec![
        ("vp8_96", "m=video 4002 RTP/AVP 96\r\na=rtpmap:96 VP8/90000\r\na=sendrecv\r\n"),
        ("h264_96", "m=video 4002 RTP/AVP 96\r\na=rtpmap:96 H264/90000\r\na=fmtp:96 packetization-mode=1;profile-level-id=42e01f\r\na=sendrecv\r\n"),
        ("vp8_100", "m=video 4002 RTP/AVP 100\r\na=rtpmap:100 VP8/90000\r\na=sendrecv\r\n"),
        ("vp8_96_rtx_97", "m=video 4002 RTP/AVP 96 97\r\na=rtpmap:96 VP8/90000\r\na=rtpmap:97 rtx/90000\r\na=fmtp:97 apt=96\r\na=sendrecv\r\n"),
        ("h264_102_vp8_96", "m=video 4002 RTP/AVP 102 96\r\na=rtpmap:102 H264/90000\r\na=rtpmap:96 VP8/90000\r\na=sendrecv\r\n"),
    ];
    let pcmu = acap_json(&AudioCapability::pcmu());
    let opus = acap_json(&AudioCapability::opus());
    let dtmf = acap_json(&AudioCapability::telephone_event());
    let vp8 = vcap_json(&VideoCapability::default());
    let h264 = vcap_json(&VideoCapability::h264());
    let vp8rtx = vcap_json(&VideoCapability::vp8_with_rtx(97));
    let caps: Vec<(&str, Value)> = vec![
        ("none", Value::Null),
        ("pcmu_only", json!({"audio": [pcmu.clone()], "video": [vp8.clone()], "app": 5000, "image": 0})),
        ("opus_pcmu_dtmf", json!({"audio": [opus.clone(), pcmu.clone(), dtmf.clone()], "video": [h264.clone()], "app": 5000, "image": 0})),
        ("empty_lists", json!({"audio": [], "video": [], "app": null, "image": 0})),
        ("vp8_rtx97", json!({"audio": [opus.clone()], "video": [vp8rtx.clone()], "app": 5000, "image": 0})),
    ];
    let hdr = "v=0\r\no=- 1 1 IN IP4 127.0.0.1\r\ns=-\r\nc=IN IP4 127.0.0.1\r\nt=0 0\r\n";
    for (cn, cap) in &caps {
        for (an, a) in &audio_offers {
            let cfg = json!({"mode": "rtp", "compat": "standard", "mux": "require", "bundle": "balanced", "ice_lite": false, "caps": cap});
            out.push(json!({"label": format!("caps={cn} offer={an}"), "config": cfg, "pre": [], "steps": [
                {"op": "remote_offer", "sdp": format!("{hdr}{a}")},
                {"op": "remote_offer", "sdp": format!("{hdr}{a}").replace("o=- 1 1", "o=- 1 2").replace("a=sendrecv", "a=sendonly")},
            ]}));
        }
        for (vn, v) in &video_offers {
            let cfg = json!({"mode": "rtp", "compat": "standard", "mux": "negotiate", "bundle": "balanced", "ice_lite": false, "caps": cap});
            out.push(json!({"label": format!("caps={cn} offer={vn}"), "config": cfg, "pre": [], "steps": [
                {"op": "remote_offer", "sdp": format!("{hdr}{v}")},
                {"op": "remote_offer", "sdp": format!("{hdr}{v}").replace("o=- 1 1", "o=- 1 2").replace("a=sendrecv", "a=recvonly")},
            ]}));
        }
    }
    // WebRTC flavour of a few of them (browser-like offer, BUNDLE, extmaps, setup variants)
    for setup in ["actpass", "active", "passive"] {
        for (lvl, cap) in [("media", Value::Null), ("session", json!({"audio": [opus.clone()], "video": [vp8.clone()], "app": 5000, "image": 0}))] {
            let (s_setup, m_setup) = if lvl == "session" { (format!("a=setup:{setup}\r\n"), String::new()) } else { (String::new(), format!("a=setup:{setup}\r\n")) };
            let sdp = format!(
                "v=0\r\no=- 7 2 IN IP4 127.0.0.1\r\ns=-\r\nt=0 0\r\na=group:BUNDLE 0 1 2\r\na=msid-semantic: WMS *\r\na=fingerprint:{FAKE_FP}\r\n{s_setup}\
m=audio 9 UDP/TLS/RTP/SAVPF 111 0\r\nc=IN IP4 0.0.0.0\r\na=ice-ufrag:rEmU\r\na=ice-pwd:remotepasswordremotepassw0rd\r\n{m_setup}a=mid:0\r\n\
a=extmap:1 urn:ietf:params:rtp-hdrext:ssrc-audio-level\r\na=extmap:2 http://www.webrtc.org/experiments/rtp-hdrext/abs-send-time\r\na=extmap:4 urn:ietf:params:rtp-hdrext:sdes:mid\r\n\
a=sendrecv\r\na=rtcp-mux\r\na=rtpmap:111 opus/48000/2\r\na=fmtp:111 minptime=10;useinbandfec=1\r\na=rtpmap:0 PCMU/8000\r\n\
m=video 9 UDP/TLS/RTP/SAVPF 96 97\r\nc=IN IP4 0.0.0.0\r\na=ice-ufrag:rEmU\r\na=ice-pwd:remotepasswordremotepassw0rd\r\n{m_setup}a=mid:1\r\n\
a=extmap:2 http://www.webrtc.org/experiments/rtp-hdrext/abs-send-time\r\na=extmap:4 urn:ietf:params:rtp-hdrext:sdes:mid\r\na=extmap:10 urn:ietf:params:rtp-hdrext:sdes:rtp-stream-id\r\na=extmap:11 urn:ietf:params:rtp-hdrext:sdes:repaired-rtp-stream-id\r\n\
a=sendonly\r\na=rtcp-mux\r\na=rtcp-rsize\r\na=rtpmap:96 VP8/90000\r\na=rtcp-fb:96 nack\r\na=rtcp-fb:96 nack pli\r\na=rtpmap:97 rtx/90000\r\na=fmtp:97 apt=96\r\n\
m=application 9 UDP/DTLS/SCTP webrtc-datachannel\r\nc=IN IP4 0.0.0.0\r\na=ice-ufrag:rEmU\r\na=ice-pwd:remotepasswordremotepassw0rd\r\n{m_setup}a=mid:2\r\na=sctp-port:5000\r\n"
            );
            let cfg = json!({"mode": "webrtc", "compat": "standard", "mux": "require", "bundle": "balanced", "ice_lite": false, "caps": cap});
            out.push(json!({"label": format!("webrtc setup={setup}@{lvl}"), "config": cfg, "pre": [], "steps": [{"op": "remote_offer", "sdp": sdp}]}));
        }
    }
    out
}

// =====================================================================================
// remote answer synthesised from rustrtc's own offer (for "we offered first" negotiations)
// =====================================================================================

fn synth_answer(local_offer: &str, spec: &Value) -> String {
    let o = read_sdp(local_offer);
    let keep = spec["keep"].as_u64().unwrap_or(1) as usize;
    let mut s = String::new();
    let mut l = |x: String| {
        s.push_str(&x);
        s.push_str("\r\n");
    };
    l("v=0".into());
    l("o=- 99 1 IN IP4 127.0.0.1".into());
    l("s=-".into());
    l("c=IN IP4 127.0.0.1".into());
    l("t=0 0".into());
    for g in o.sess_vals("group") {
        l(format!("a=group:{g}"));
    }
    for (i, sec) in o.secs.iter().enumerate() {
        let fmts: Vec<String> = if sec.is_rtp() {
            // keep the first `keep` primary formats plus RTX entries that point at them
            let mut kept: Vec<String> = vec![];
            for f in &sec.fmts {
                let Ok(pt) = f.parse::<u32>() else { continue };
                let is_rtx = sec.rtpmap(pt).map(|b| b.0 == "rtx").unwrap_or(false);
                if !is_rtx && kept.len() < keep {
                    kept.push(f.clone());
                }
            }
            for (r, apt) in sec.rtx_pairs() {
                if kept.contains(&apt.to_string()) {
                    kept.push(r.to_string());
                }
            }
            if kept.is_empty() { sec.fmts.clone() } else { kept }
        } else {
            sec.fmts.clone()
        };
        let port = if sec.proto.contains("TLS") || sec.proto.contains("DTLS") { 9 } else { 42000 + 2 * i };
        l(format!("m={} {} {} {}", sec.kind, port, sec.proto, fmts.join(" ")));
        if sec.has("fingerprint") {
            l("c=IN IP4 0.0.0.0".into());
            l("a=ice-ufrag:rEmU".into());
            l("a=ice-pwd:remotepasswordremotepassw0rd".into());
            l(format!("a=fingerprint:{FAKE_FP}"));
            l(format!("a=setup:{}", spec["setup"].as_str().unwrap_or("active")));
        }
        if let Some(m) = sec.mid() {
            l(format!("a=mid:{m}"));
        }
        for (id, uri) in sec.extmaps() {
            l(format!("a=extmap:{id} {uri}"));
        }
        let od = sec.dir().unwrap_or("sendrecv");
        let mirrored = match od {
            "sendonly" => "recvonly",
            "recvonly" => "sendonly",
            x => x,
        };
        let d = match spec["dir"].as_str().unwrap_or("mirror") {
            "inactive" => "inactive",
            "recvonly" => {
                if od == "sendrecv" || od == "sendonly" { "recvonly" } else { "inactive" }
            }
            _ => mirrored,
        };
        l(format!("a={d}"));
        if sec.has("rtcp-mux") && spec["mux"].as_bool().unwrap_or(true) {
            l("a=rtcp-mux".into());
        }
        for key in ["rtpmap", "fmtp", "rtcp-fb"] {
            for v in sec.vals(key) {
                let pt = v.split_whitespace().next().unwrap_or("");
                if fmts.iter().any(|f| f == pt) {
                    l(format!("a={key}:{v}"));
                }
            }
        }
        if sec.has("sctp-port") {
            l("a=sctp-port:5000".into());
        }
        if sec.has("crypto") {
            l("a=crypto:1 AES_CM_128_HMAC_SHA1_80 inline:WVNfX19zZW1jdGwgKCkgewkyMjA7fQp9CnVubGVz|2^31|1:1".into());
        }
        if sec.is_rtp() && d != "inactive" && d != "recvonly" {
            l(format!("a=ssrc:{} cname:remoteCname", 777000 + i));
        }
    }
    s
}

// =====================================================================================
// scenario runner
// =====================================================================================

struct Outcome {
    viols: Vec<Viol>,
    judged: u32,
    obs: Obs,
    sample: Option<Value>,
}

fn err_class<E: std::fmt::Debug>(e: &E) -> String {
    let s = format!("{e:?}");
    s.chars().take_while(|c| c.is_alphanumeric() || *c == '_').collect()
}

fn shape(text: &str) -> String {
    let d = read_sdp(text);
    d.secs
        .iter()
        .map(|s| format!("{}{}", &s.kind[..1.min(s.kind.len())], if s.mid().is_some() { "m" } else { "-" }))
        .collect::<Vec<_>>()
        .join("")
}

async fn run_scenario(sc: Value) -> Outcome {
    let mut out = Outcome { viols: vec![], judged: 0, obs: Obs::default(), sample: None };
    let cfgv = sc["config"].clone();
    let mode = cfgv["mode"].as_str().unwrap_or("webrtc").to_string();
    let compat = cfgv["compat"].as_str().unwrap_or("standard").to_string();
    let pc = PeerConnection::new(build_config(&cfgv));
    let mut keep_alive = vec![];
    for p in sc["pre"].as_array().cloned().unwrap_or_default() {
        let dir = match p["dir"].as_str().unwrap_or("sendrecv") {
            "sendonly" => TransceiverDirection::SendOnly,
            "recvonly" => TransceiverDirection::RecvOnly,
            "inactive" => TransceiverDirection::Inactive,
            _ => TransceiverDirection::SendRecv,
        };
        match p["kind"].as_str().unwrap_or("") {
            "data" => {
                let _ = pc.create_data_channel("pre", None);
                out.obs.c("pre.data_channel");
            }
            k @ ("audio" | "video") => {
                let kind = if k == "audio" { MediaKind::Audio } else { MediaKind::Video };
                if p["track"].as_bool().unwrap_or(false) {
                    let fk = if k == "audio" { rustrtc::media::MediaKind::Audio } else { rustrtc::media::MediaKind::Video };
                    let t = rustrtc::media::sample_track(fk, 8);
                    let params = if k == "audio" {
                        RtpCodecParameters { payload_type: 111, name: "opus".into(), clock_rate: 48000, channels: 2 }
                    } else {
                        RtpCodecParameters { payload_type: 96, name: "VP8".into(), clock_rate: 90000, channels: 0 }
                    };
                    let track: Arc<dyn rustrtc::media::MediaStreamTrack> = t.1.clone();
                    let _ = pc.add_track(track, params);
                    keep_alive.push(t);
                    out.obs.c("pre.track");
                } else {
                    pc.add_transceiver(kind, dir);
                    out.obs.c("pre.transceiver");
                }
            }
            _ => {}
        }
    }

    let mut negotiated = false;
    let mut remote_role: Option<String> = None; // DTLS role the remote party holds once a negotiation completed
    let steps = sc["steps"].as_array().cloned().unwrap_or_default();
    for (si, st) in steps.iter().enumerate() {
        let neg = if negotiated { "subsequent" } else { "first" };
        let witness = |offer: &str, answer: &str, detail: &Value| {
            json!({"step": si, "negotiation": neg, "config": cfgv, "pre": sc["pre"], "offer": offer, "answer": answer, "detail": detail})
        };
        match st["op"].as_str().unwrap_or("") {
            "remote_offer" => {
                let sdp = st["sdp"].as_str().unwrap_or("");
                out.obs.c("offers.fed");
                let desc = match SessionDescription::parse(SdpType::Offer, sdp) {
                    Ok(d) => d,
                    Err(e) => {
                        out.obs.c(&format!("offers.parse_err.{}", err_class(&e)));
                        break;
                    }
                };
                for mut v in check_roundtrip(&desc, "remote_offer", &mut out.obs) {
                    v.detail = witness(sdp, "", &v.detail);
                    out.viols.push(v);
                }
                if let Err(e) = pc.set_remote_description(desc).await {
                    out.obs.c(&format!("set_remote_offer.err.{}.{neg}", err_class(&e)));
                    out.obs.s("set_remote_errors", format!("{mode}: {e}"));
                    break;
                }
                let ans = match pc.create_answer().await {
                    Ok(a) => a,
                    Err(e) => {
                        out.obs.c(&format!("create_answer.err.{}.{neg}", err_class(&e)));
                        out.obs.s("create_answer_errors", format!("{mode}: {e}"));
                        break;
                    }
                };
                let atext = ans.to_sdp_string();
                out.judged += 1;
                out.obs.c(&format!("judged.{neg}"));
                out.obs.c(&format!("judged.mode.{mode}.{compat}"));
                out.obs.s("offer_shapes", shape(sdp));
                let prev_steps_local = si > 0 && steps[si - 1]["op"] == "local_offer";
                if negotiated {
                    out.obs.c(if prev_steps_local { "judged.subsequent.after_local_offer" } else { "judged.subsequent.after_remote_offer" });
                }
                let vs = check_answer(sdp, &atext, neg, &cfgv, remote_role.as_deref(), &mut out.obs);
                if out.sample.is_none() {
                    out.sample = Some(json!({"config": cfgv, "negotiation": neg, "offer": sdp, "answer": atext,
                        "violated_keys": vs.iter().map(|v| v.key.clone()).collect::<Vec<_>>()}));
                }
                for mut v in vs {
                    v.detail = witness(sdp, &atext, &v.detail);
                    out.viols.push(v);
                }
                for mut v in check_roundtrip(&ans, "local_answer", &mut out.obs) {
                    v.detail = witness(sdp, &atext, &v.detail);
                    out.viols.push(v);
                }
                if let Err(e) = pc.set_local_description(ans) {
                    out.obs.c(&format!("set_local_answer.err.{}", err_class(&e)));
                    break;
                }
                negotiated = true;
                if remote_role.is_none() {
                    let a = read_sdp(&atext);
                    if !a.secs.is_empty() {
                        remote_role = match a.setup(0).map(|x| x.0).as_deref() {
                            Some("active") => Some("passive".into()),
                            Some("passive") => Some("active".into()),
                            _ => None,
                        };
                    }
                }
            }
            "local_offer" => {
                let off = match pc.create_offer().await {
                    Ok(o) => o,
                    Err(e) => {
                        out.obs.c(&format!("create_offer.err.{}", err_class(&e)));
                        break;
                    }
                };
                let otext = off.to_sdp_string();
                out.obs.c("local_offers.created");
                for mut v in check_roundtrip(&off, "local_offer", &mut out.obs) {
                    v.detail = witness(&otext, "", &v.detail);
                    out.viols.push(v);
                }
                if let Err(e) = pc.set_local_description(off) {
                    out.obs.c(&format!("set_local_offer.err.{}", err_class(&e)));
                    break;
                }
                let mut spec = st["answer"].clone();
                if let Some(r) = &remote_role {
                    spec["setup"] = json!(r);
                }
                let atext = synth_answer(&otext, &spec);
                let adesc = match SessionDescription::parse(SdpType::Answer, &atext) {
                    Ok(d) => d,
                    Err(e) => {
                        out.obs.c(&format!("remote_answer.parse_err.{}", err_class(&e)));
                        break;
                    }
                };
                for mut v in check_roundtrip(&adesc, "remote_answer", &mut out.obs) {
                    v.detail = witness(&otext, &atext, &v.detail);
                    out.viols.push(v);
                }
                if let Err(e) = pc.set_remote_description(adesc).await {
                    out.obs.c(&format!("set_remote_answer.err.{}", err_class(&e)));
                    out.obs.s("set_remote_answer_errors", format!("{mode}: {e}"));
                    break;
                }
                out.obs.c("local_offers.answered");
                negotiated = true;
                if remote_role.is_none() && atext.contains("a=setup:") {
                    remote_role = spec["setup"].as_str().map(|s| s.to_string());
                }
            }
            _ => {}
        }
    }
    pc.close();
    drop(keep_alive);
    out
}

// =====================================================================================
// entry point
// =====================================================================================

/// Run a batch of scenarios as independent tokio tasks (bounded number in flight). Two guards,
/// both inconclusive: a 60 s per-scenario watchdog, and a stall guard for the case that rustrtc
/// blocks worker threads (a timeout future cannot fire then): no scenario finished for 150 s.
fn run_batch(rt: &tokio::runtime::Runtime, scenarios: Vec<Value>, replay: bool) -> (Vec<(Value, Result<Outcome, String>)>, bool) {
    let total = scenarios.len();
    let slots: Arc<parking_lot::Mutex<Vec<Option<Result<Outcome, String>>>>> =
        Arc::new(parking_lot::Mutex::new((0..total).map(|_| None).collect()));
    let done = Arc::new(std::sync::atomic::AtomicUsize::new(0));
    let sem = Arc::new(tokio::sync::Semaphore::new(400));
    for (idx, sc) in scenarios.iter().cloned().enumerate() {
        let (slots, done, sem) = (slots.clone(), done.clone(), sem.clone());
        rt.spawn(async move {
            let _permit = sem.acquire_owned().await;
            let attempts = if replay { 5 } else { 1 };
            let mut last: Result<Outcome, String> = Err("not run".into());
            for _ in 0..attempts {
                let sc2 = sc.clone();
                let h = tokio::spawn(async move {
                    tokio::time::timeout(std::time::Duration::from_secs(60), run_scenario(sc2)).await
                });
                last = match h.await {
                    Ok(Ok(o)) => Ok(o),
                    Ok(Err(_)) => Err("watchdog: scenario did not finish within 60 s".into()),
                    Err(e) => {
                        let loc = take_panics().last().map(|p| format!("{} ({})", norm_location(&p.location), p.message)).unwrap_or_default();
                        Err(format!("panic while driving the scenario: {e} {loc}"))
                    }
                };
                if matches!(&last, Ok(o) if !o.viols.is_empty()) {
                    break;
                }
            }
            slots.lock()[idx] = Some(last);
            done.fetch_add(1, std::sync::atomic::Ordering::SeqCst);
        });
    }
    let mut last_done = 0usize;
    let mut last_change = std::time::Instant::now();
    let mut stalled = false;
    loop {
        let d = done.load(std::sync::atomic::Ordering::SeqCst);
        if d >= total {
            break;
        }
        if d != last_done {
            last_done = d;
            last_change = std::time::Instant::now();
        } else if last_change.elapsed().as_secs() > 150 {
            stalled = true;
            break;
        }
        std::thread::sleep(std::time::Duration::from_millis(20));
    }
    let taken: Vec<Option<Result<Outcome, String>>> = std::mem::take(&mut *slots.lock());
    let results = scenarios
        .into_iter()
        .zip(taken.into_iter())
        .map(|(sc, r)| (sc, r.unwrap_or_else(|| Err("stall guard: no scenario finished for 150 s (worker threads blocked?)".into()))))
        .collect();
    (results, stalled)
}

fn record_batch(report: &mut Report, results: Vec<(Value, Result<Outcome, String>)>, table: bool) -> u64 {
    let mut judged_total = 0u64;
    for (sc, res) in results {
        if table {
            if let (Some(l), Ok(o)) = (sc["label"].as_str(), &res) {
                let mut ks: Vec<String> = o.viols.iter().map(|v| format!("[step {}] {}", v.detail["step"], v.key)).collect();
                ks.sort();
                println!("TABLE {l}: judged={} {}", o.judged, if ks.is_empty() { "held".to_string() } else { ks.join(" | ") });
            }
        }
        match res {
            Err(why) => {
                let short: String = why.chars().take(160).collect();
                report.count("inconclusive_scenarios", 1);
                report.seen("inconclusive_reasons", short.clone());
                report.record(&sc, None, Verdict::Inconclusive(short));
            }
            Ok(o) => {
                for (k, n) in &o.obs.counts {
                    report.count(k, *n);
                }
                for (set, item) in &o.obs.seen {
                    report.seen(set, item.clone());
                }
                judged_total += o.judged as u64;
                if let Some(s) = o.sample {
                    if o.judged > 0 {
                        report.sample(s);
                    }
                }
                let h = if o.judged > 0 { Some(hash_value(&sc)) } else { None };
                if o.judged == 0 {
                    report.count("scenarios.not_judged", 1);
                }
                let mut it = o.viols.into_iter();
                match it.next() {
                    // no judged pair: the property is conditional on acceptance of the offer –
                    // vacuously held, not counted as non-trivial (h is None then)
                    None => report.record(&sc, h, Verdict::Held),
                    Some(first) => {
                        report.count(&format!("violations_by_key.{}", first.key), 1);
                        report.record(&sc, h, Verdict::violated(first.key, first.what, first.detail));
                        for v in it {
                            report.count(&format!("violations_by_key.{}", v.key), 1);
                            report.violation(&sc, &v.key, &v.what, v.detail);
                        }
                    }
                }
            }
        }
    }
    judged_total
}

pub fn run(args: &Args) -> i32 {
    let mut report = Report::new(
        args,
        "exploration",
        "a scenario is non-trivial when at least one (offer, answer) pair was judged, i.e. \
         set_remote_description(offer) and create_answer() both returned Ok and the oracle read both texts",
    );
    report.assume("offers are structurally valid SDP produced by the harness generator (no malformed lines; mids < 65535)");
    report.assume("the answer relation is judged on the SDP text with a harness-own line reader; ports, fmtp, rtcp-fb, ssrc, crypto, candidates are not constrained");
    report.assume("rtpmap comparison only when both offer and answer bind the PT (explicit rtpmap or RFC 3551 static table)");
    report.assume("a re-offer whose a=setup contradicts the role the offerer already holds is not judged on the setup clause");
    report.max_samples = 8;
    let table = args.has_flag("--table");
    let rt = build_runtime(14);
    let mut judged_total = 0u64;

    if let Some(p) = &args.replay {
        let Some(sc) = load_replay(p) else {
            eprintln!("cannot load replay {}", p.display());
            return 2;
        };
        let (res, _) = run_batch(&rt, vec![sc], true);
        judged_total += record_batch(&mut report, res, table);
        let violated = !report.violations.is_empty();
        let _ = report.finish(0, 0);
        return if violated { 1 } else if judged_total > 0 { 0 } else { 2 };
    }

    let n = args.tier.pick(8000u64, 300_000u64);
    let n = args.opt("--cases").and_then(|s| s.parse().ok()).unwrap_or(n);
    let root = Rng::new(args.seed);
    let directed = directed_scenarios();
    report.count("scenarios.directed", directed.len() as u64);
    report.count("scenarios.generated", n);
    let mut stalled = false;
    let mut next = 0u64;
    let mut batch = directed;
    loop {
        // batches bound memory: scenarios and their witnesses are dropped once recorded
        while batch.len() < 10_000 && next < n {
            let mut r = root.fork(next + 1);
            batch.push(gen_scenario(&mut r));
            next += 1;
        }
        if batch.is_empty() {
            break;
        }
        let (res, st) = run_batch(&rt, std::mem::take(&mut batch), false);
        judged_total += record_batch(&mut report, res, table);
        if st {
            stalled = true;
            report.note("stall guard fired; the unfinished scenarios of that batch are inconclusive and the run stopped early");
            break;
        }
    }
    report.count("judged_offer_answer_pairs", judged_total);
    if stalled {
        std::mem::forget(rt); // blocked workers cannot be joined
    } else {
        rt.shutdown_timeout(std::time::Duration::from_secs(2));
    }
    let (min_v, min_nt) = (args.tier.pick(2000, 60_000), args.tier.pick(1500, 50_000));
    report.finish(min_v, min_nt)
}
