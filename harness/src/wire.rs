//! Component-level man in the middle (DESIGN.md §2.1).
//!
//! Two endpoints, each `UdpSocket -> IceConn -> DtlsTransport (-> SctpTransport)`, built through
//! rustrtc's public API. Each IceConn's remote address is one of the wire's sockets, so every
//! datagram an endpoint writes arrives here. The wire logs it, classifies it (DTLS record type;
//! once the DTLS state exposes the negotiated keys, ApplicationData is opened with the harness's
//! own AES-GCM and the SCTP chunks inside are parsed with the harness's own reader), applies the
//! fault plan and delivers the resulting datagrams by calling `PacketReceiver::receive` on the
//! peer's IceConn from this single task (per-direction FIFO unless the plan says otherwise).

use crate::common::Rng;
use crate::sctprd::{self, SctpPacket};
use aes_gcm::aead::{AeadInPlace, KeyInit};
use aes_gcm::{Aes128Gcm, Nonce, Tag};
use bytes::Bytes;
use parking_lot::Mutex;
use rustrtc::transports::PacketReceiver;
use rustrtc::transports::dtls::{DtlsState, DtlsTransport, SessionKeys};
use rustrtc::transports::ice::conn::IceConn;
use serde_json::{Value, json};
use std::collections::{BTreeMap, BinaryHeap, HashMap};
use std::net::SocketAddr;
use std::sync::Arc;
use std::sync::atomic::{AtomicBool, AtomicU64, Ordering};
use std::time::{Duration, Instant};
use tokio::net::UdpSocket;

#[derive(Clone, Copy, Debug, PartialEq, Eq, Hash, PartialOrd, Ord)]
pub enum Dir {
    A2B,
    B2A,
}
impl Dir {
    pub fn name(&self) -> &'static str {
        match self {
            Dir::A2B => "a2b",
            Dir::B2A => "b2a",
        }
    }
    pub fn from_name(s: &str) -> Option<Dir> {
        match s {
            "a2b" => Some(Dir::A2B),
            "b2a" => Some(Dir::B2A),
            _ => None,
        }
    }
    pub fn rev(&self) -> Dir {
        match self {
            Dir::A2B => Dir::B2A,
            Dir::B2A => Dir::A2B,
        }
    }
}

// ---------------------------------------------------------------- fault plans

#[derive(Clone, Debug, PartialEq)]
pub enum Action {
    Drop,
    /// deliver now and `copies` more times, the i-th copy after i*delay_ms
    Dup { copies: u32, delay_ms: u64 },
    Delay { ms: u64 },
    /// hold until the next datagram of the same direction has been delivered (or 400 ms)
    SwapNext,
}

#[derive(Clone, Debug)]
pub struct Rule {
    pub dir: Dir,
    /// chunk class name as in sctprd::chunk_name, or "dtls_hs", "dtls_ccs", "app" (any SCTP)
    pub class: String,
    /// n-th datagram (0-based) of that direction that contains the class
    pub ordinal: u32,
    pub action: Action,
}

#[derive(Clone, Debug, Default)]
pub struct RandomPhase {
    /// per-mille probabilities applied to each SCTP datagram while the phase lasts
    pub loss_pm: u32,
    pub dup_pm: u32,
    pub delay_pm: u32,
    pub max_delay_ms: u64,
    /// the phase covers the first `packets` SCTP datagrams of each direction
    pub packets: u32,
    /// apply to association-setup chunks too (otherwise only after COOKIE-ACK was seen)
    pub include_setup: bool,
}

#[derive(Clone, Debug, Default)]
pub struct Plan {
    pub rules: Vec<Rule>,
    pub random: Option<RandomPhase>,
    pub seed: u64,
}

impl Plan {
    pub fn to_json(&self) -> Value {
        let rules: Vec<Value> = self
            .rules
            .iter()
            .map(|r| {
                let a = match &r.action {
                    Action::Drop => json!({"op": "drop"}),
                    Action::Dup { copies, delay_ms } => {
                        json!({"op": "dup", "copies": copies, "delay_ms": delay_ms})
                    }
                    Action::Delay { ms } => json!({"op": "delay", "ms": ms}),
                    Action::SwapNext => json!({"op": "swap"}),
                };
                json!({"dir": r.dir.name(), "class": r.class, "ordinal": r.ordinal, "action": a})
            })
            .collect();
        let random = self.random.as_ref().map(|p| {
            json!({"loss_pm": p.loss_pm, "dup_pm": p.dup_pm, "delay_pm": p.delay_pm,
                   "max_delay_ms": p.max_delay_ms, "packets": p.packets, "include_setup": p.include_setup})
        });
        json!({"rules": rules, "random": random, "seed": self.seed})
    }
    pub fn from_json(v: &Value) -> Plan {
        let mut p = Plan::default();
        p.seed = v["seed"].as_u64().unwrap_or(0);
        if let Some(rs) = v["rules"].as_array() {
            for r in rs {
                let a = &r["action"];
                let action = match a["op"].as_str().unwrap_or("") {
                    "drop" => Action::Drop,
                    "dup" => Action::Dup {
                        copies: a["copies"].as_u64().unwrap_or(1) as u32,
                        delay_ms: a["delay_ms"].as_u64().unwrap_or(0),
                    },
                    "delay" => Action::Delay {
                        ms: a["ms"].as_u64().unwrap_or(0),
                    },
                    _ => Action::SwapNext,
                };
                p.rules.push(Rule {
                    dir: Dir::from_name(r["dir"].as_str().unwrap_or("a2b")).unwrap_or(Dir::A2B),
                    class: r["class"].as_str().unwrap_or("").to_string(),
                    ordinal: r["ordinal"].as_u64().unwrap_or(0) as u32,
                    action,
                });
            }
        }
        if v["random"].is_object() {
            let r = &v["random"];
            p.random = Some(RandomPhase {
                loss_pm: r["loss_pm"].as_u64().unwrap_or(0) as u32,
                dup_pm: r["dup_pm"].as_u64().unwrap_or(0) as u32,
                delay_pm: r["delay_pm"].as_u64().unwrap_or(0) as u32,
                max_delay_ms: r["max_delay_ms"].as_u64().unwrap_or(0),
                packets: r["packets"].as_u64().unwrap_or(0) as u32,
                include_setup: r["include_setup"].as_bool().unwrap_or(false),
            });
        }
        p
    }
    /// short signature of the enumerated part, used in violation keys
    pub fn signature(&self) -> String {
        let mut parts: Vec<String> = self
            .rules
            .iter()
            .map(|r| {
                let a = match &r.action {
                    Action::Drop => "drop",
                    Action::Dup { .. } => "dup",
                    Action::Delay { .. } => "delay",
                    Action::SwapNext => "swap",
                };
                format!("{}:{}", a, r.class)
            })
            .collect();
        parts.sort();
        parts.dedup();
        if self.random.is_some() {
            parts.push("random".into());
        }
        if parts.is_empty() {
            "none".into()
        } else {
            parts.join("+")
        }
    }
}

// ---------------------------------------------------------------- capture

#[derive(Clone, Debug, PartialEq, Eq)]
pub enum Kind {
    DtlsHandshake,
    DtlsCcs,
    DtlsAlert,
    /// ApplicationData that opened under the negotiated keys
    App,
    /// ApplicationData that could not be opened (keys unknown yet or authentication failed)
    AppOpaque,
    Other,
}

#[derive(Clone, Debug)]
pub struct Captured {
    pub idx: usize,
    pub t_us: u64,
    pub dir: Dir,
    pub kind: Kind,
    pub len: usize,
    /// (epoch, seq) of every record in the datagram
    pub records: Vec<(u8, u16, u64, usize)>, // content type, epoch, seq, body length
    pub sctp: Option<SctpPacket>,
    pub fault: Option<String>,
    /// times (us) at which this datagram was handed to the peer
    pub deliveries: Vec<u64>,
    pub after_heal: bool,
}

#[derive(Default)]
pub struct WireStats {
    pub rules_fired: Vec<String>,
    pub random_faults: u64,
}

pub struct WireShared {
    pub start: Instant,
    pub log: Mutex<Vec<Captured>>,
    pub stats: Mutex<WireStats>,
    pub healed: AtomicBool,
    pub heal_t_us: AtomicU64,
    pub stop: AtomicBool,
    keys: Mutex<Option<(SessionKeys, bool)>>, // keys, a_is_client
}

impl WireShared {
    pub fn now_us(&self) -> u64 {
        self.start.elapsed().as_micros() as u64
    }
    /// Disable every remaining rule; from now on all new datagrams are delivered unfaulted.
    /// The wire is *healed* (heal_time() is Some) once nothing delayed/held is left either.
    pub fn heal(&self) {
        self.healed.store(true, Ordering::SeqCst);
    }
    pub fn is_healed(&self) -> bool {
        self.healed.load(Ordering::SeqCst)
    }
    /// time (us since wire start) from which every datagram is delivered unfaulted and no
    /// faulted datagram is still in flight
    pub fn heal_time(&self) -> Option<u64> {
        match self.heal_t_us.load(Ordering::SeqCst) {
            0 => None,
            t => Some(t),
        }
    }
}

/// Open one AES-128-GCM DTLS 1.2 record body (explicit nonce || ciphertext || tag).
pub fn open_record(
    key: &[u8],
    iv: &[u8],
    ctype: u8,
    epoch: u16,
    seq: u64,
    body: &[u8],
) -> Option<Vec<u8>> {
    if body.len() < 8 + 16 || key.len() != 16 || iv.len() != 4 {
        return None;
    }
    let cipher = Aes128Gcm::new_from_slice(key).ok()?;
    let mut nonce = [0u8; 12];
    nonce[..4].copy_from_slice(iv);
    nonce[4..].copy_from_slice(&body[..8]);
    let ct_len = body.len() - 8 - 16;
    let mut buf = body[8..8 + ct_len].to_vec();
    let tag = Tag::from_slice(&body[8 + ct_len..]);
    let mut aad = [0u8; 13];
    let full = ((epoch as u64) << 48) | (seq & 0xFFFF_FFFF_FFFF);
    aad[..8].copy_from_slice(&full.to_be_bytes());
    aad[8] = ctype;
    aad[9] = 0xFE;
    aad[10] = 0xFD;
    aad[11..13].copy_from_slice(&(ct_len as u16).to_be_bytes());
    cipher
        .decrypt_in_place_detached(Nonce::from_slice(&nonce), &aad, &mut buf, tag)
        .ok()?;
    Some(buf)
}

/// Split a datagram into DTLS records: (content type, epoch, seq, body range).
pub fn split_records(d: &[u8]) -> Vec<(u8, u16, u64, std::ops::Range<usize>)> {
    let mut out = vec![];
    let mut i = 0;
    while i + 13 <= d.len() {
        let ct = d[i];
        let epoch = u16::from_be_bytes([d[i + 3], d[i + 4]]);
        let mut s = [0u8; 8];
        s[2..].copy_from_slice(&d[i + 5..i + 11]);
        let seq = u64::from_be_bytes(s);
        let len = u16::from_be_bytes([d[i + 11], d[i + 12]]) as usize;
        if i + 13 + len > d.len() {
            break;
        }
        out.push((ct, epoch, seq, i + 13..i + 13 + len));
        i += 13 + len;
    }
    out
}

struct Pending {
    at: Instant,
    order: u64,
    dir: Dir,
    idx: usize,
    data: Bytes,
}
impl PartialEq for Pending {
    fn eq(&self, o: &Self) -> bool {
        self.at == o.at && self.order == o.order
    }
}
impl Eq for Pending {}
impl PartialOrd for Pending {
    fn partial_cmp(&self, o: &Self) -> Option<std::cmp::Ordering> {
        Some(self.cmp(o))
    }
}
impl Ord for Pending {
    fn cmp(&self, o: &Self) -> std::cmp::Ordering {
        // BinaryHeap is a max-heap: reverse
        o.at.cmp(&self.at).then(o.order.cmp(&self.order))
    }
}

pub struct WireEnds {
    pub wa: Arc<UdpSocket>,
    pub wb: Arc<UdpSocket>,
    pub conn_a: Arc<IceConn>,
    pub conn_b: Arc<IceConn>,
    pub dtls_a: Arc<DtlsTransport>,
    pub a_is_client: bool,
}

/// Spawn the wire task. Returns the shared capture state.
pub fn spawn_wire(ends: WireEnds, plan: Plan) -> Arc<WireShared> {
    let shared = Arc::new(WireShared {
        start: Instant::now(),
        log: Mutex::new(Vec::new()),
        stats: Mutex::new(WireStats::default()),
        healed: AtomicBool::new(false),
        heal_t_us: AtomicU64::new(0),
        stop: AtomicBool::new(false),
        keys: Mutex::new(None),
    });
    let sh = shared.clone();
    tokio::spawn(async move {
        wire_task(ends, plan, sh).await;
    });
    shared
}

fn classify(
    shared: &WireShared,
    ends: &WireEnds,
    dir: Dir,
    d: &[u8],
) -> (Kind, Vec<(u8, u16, u64, usize)>, Option<SctpPacket>) {
    let recs = split_records(d);
    let mut kind = Kind::Other;
    let mut sctp = None;
    let mut meta = vec![];
    for (ct, epoch, seq, range) in &recs {
        meta.push((*ct, *epoch, *seq, range.len()));
        match *ct {
            22 if kind == Kind::Other => kind = Kind::DtlsHandshake,
            20 if kind == Kind::Other => kind = Kind::DtlsCcs,
            21 if kind == Kind::Other => kind = Kind::DtlsAlert,
            23 => {
                // keys: fetch lazily from the DTLS state
                if shared.keys.lock().is_none() {
                    if let DtlsState::Connected(c, _) = ends.dtls_a.get_state() {
                        *shared.keys.lock() = Some((c.keys.clone(), ends.a_is_client));
                    }
                }
                let g = shared.keys.lock();
                if let Some((keys, a_is_client)) = &*g {
                    let sender_is_client = (dir == Dir::A2B) == *a_is_client;
                    let (k, iv) = if sender_is_client {
                        (&keys.client_write_key, &keys.client_write_iv)
                    } else {
                        (&keys.server_write_key, &keys.server_write_iv)
                    };
                    if let Some(pt) = open_record(k, iv, 23, *epoch, *seq, &d[range.clone()]) {
                        kind = Kind::App;
                        if sctp.is_none() {
                            sctp = sctprd::parse(&pt);
                        }
                    } else if kind != Kind::App {
                        kind = Kind::AppOpaque;
                    }
                } else if kind != Kind::App {
                    kind = Kind::AppOpaque;
                }
            }
            _ => {}
        }
    }
    (kind, meta, sctp)
}

/// rule classes of the form "SSN=<stream>:<ssn>" match a datagram carrying a DATA chunk of that
/// stream with that stream sequence number (B fragment or single-chunk message)
fn matches_ssn_class(class: &str, sctp: &Option<SctpPacket>) -> bool {
    let Some(rest) = class.strip_prefix("SSN=") else { return false };
    let mut it = rest.split(':');
    let (Some(st), Some(sn)) = (it.next().and_then(|x| x.parse::<u16>().ok()), it.next().and_then(|x| x.parse::<u16>().ok())) else {
        return false;
    };
    sctp.as_ref()
        .map(|p| p.data().any(|d| d.stream == st && d.ssn == sn && d.ppid != 50))
        .unwrap_or(false)
}

fn classes_of(kind: &Kind, sctp: &Option<SctpPacket>) -> Vec<&'static str> {
    let mut v = vec![];
    match kind {
        Kind::DtlsHandshake => v.push("dtls_hs"),
        Kind::DtlsCcs => v.push("dtls_ccs"),
        Kind::DtlsAlert => v.push("dtls_alert"),
        Kind::App | Kind::AppOpaque => v.push("app"),
        Kind::Other => {}
    }
    if let Some(p) = sctp {
        for c in &p.chunks {
            let n = c.name();
            if !v.contains(&n) {
                v.push(n);
            }
        }
    }
    v
}

async fn deliver(ends: &WireEnds, shared: &WireShared, dir: Dir, idx: usize, data: Bytes, buf: &mut Vec<u8>) {
    let (conn, src): (&Arc<IceConn>, SocketAddr) = match dir {
        Dir::A2B => (&ends.conn_b, ends.wb.local_addr().unwrap()),
        Dir::B2A => (&ends.conn_a, ends.wa.local_addr().unwrap()),
    };
    {
        let t = shared.now_us();
        let mut log = shared.log.lock();
        if let Some(c) = log.get_mut(idx) {
            c.deliveries.push(t);
        }
    }
    conn.receive(data, src, buf).await;
}

async fn wire_task(ends: WireEnds, plan: Plan, shared: Arc<WireShared>) {
    let mut ba = vec![0u8; 4096];
    let mut bb = vec![0u8; 4096];
    let mut mbuf: Vec<u8> = Vec::new();
    let mut heap: BinaryHeap<Pending> = BinaryHeap::new();
    let mut order: u64 = 0;
    let mut ordinals: HashMap<(Dir, &'static str), u32> = HashMap::new();
    let mut fired: Vec<bool> = vec![false; plan.rules.len()];
    let mut held: BTreeMap<Dir, Vec<(usize, Bytes, Instant)>> = BTreeMap::new();
    let mut sctp_count: HashMap<Dir, u32> = HashMap::new();
    let mut ssn_ordinals: HashMap<(Dir, String), u32> = HashMap::new();
    let mut cookie_ack_seen = false;
    let rng_base = Rng::new(plan.seed ^ 0x77AA);

    loop {
        if shared.stop.load(Ordering::SeqCst) {
            return;
        }
        if shared.is_healed()
            && shared.heal_t_us.load(Ordering::SeqCst) == 0
            && heap.is_empty()
            && held.values().all(|v| v.is_empty())
        {
            shared.heal_t_us.store(shared.now_us().max(1), Ordering::SeqCst);
        }
        let next_due = heap.peek().map(|p| p.at);
        let held_due = held
            .values()
            .flat_map(|v| v.iter().map(|x| x.2))
            .min();
        let wake = match (next_due, held_due) {
            (Some(a), Some(b)) => Some(a.min(b)),
            (a, b) => a.or(b),
        };
        let sleep = async {
            match wake {
                Some(t) => tokio::time::sleep_until(tokio::time::Instant::from_std(t)).await,
                None => tokio::time::sleep(Duration::from_millis(50)).await,
            }
        };
        let (dir, data): (Dir, Bytes) = tokio::select! {
            r = ends.wa.recv_from(&mut ba) => match r {
                Ok((n, _)) => (Dir::A2B, Bytes::copy_from_slice(&ba[..n])),
                Err(_) => continue,
            },
            r = ends.wb.recv_from(&mut bb) => match r {
                Ok((n, _)) => (Dir::B2A, Bytes::copy_from_slice(&bb[..n])),
                Err(_) => continue,
            },
            _ = sleep => {
                let now = Instant::now();
                while heap.peek().map(|p| p.at <= now).unwrap_or(false) {
                    let p = heap.pop().unwrap();
                    deliver(&ends, &shared, p.dir, p.idx, p.data, &mut mbuf).await;
                }
                // swap-holds that timed out
                for (d, v) in held.iter_mut() {
                    let mut keep = vec![];
                    for (idx, data, due) in v.drain(..) {
                        if due <= now || shared.is_healed() {
                            deliver(&ends, &shared, *d, idx, data, &mut mbuf).await;
                        } else {
                            keep.push((idx, data, due));
                        }
                    }
                    *v = keep;
                }
                continue;
            }
        };

        let (kind, records, sctp) = classify(&shared, &ends, dir, &data);
        let classes = classes_of(&kind, &sctp);
        if classes.contains(&"COOKIE_ACK") {
            cookie_ack_seen = true;
        }
        let healed = shared.is_healed();
        let idx = {
            let mut log = shared.log.lock();
            let idx = log.len();
            log.push(Captured {
                idx,
                t_us: shared.now_us(),
                dir,
                kind: kind.clone(),
                len: data.len(),
                records,
                sctp: sctp.clone(),
                fault: None,
                deliveries: vec![],
                after_heal: shared.heal_time().is_some(),
            });
            idx
        };

        // ordinals per (dir, class)
        let mut my_ord: Vec<(&'static str, u32)> = vec![];
        for c in &classes {
            let e = ordinals.entry((dir, c)).or_insert(0);
            my_ord.push((c, *e));
            *e += 1;
        }

        let mut action: Option<(Action, String)> = None;
        if !healed {
            for (ri, r) in plan.rules.iter().enumerate() {
                if fired[ri] || r.dir != dir {
                    continue;
                }
                let ssn_hit = r.class.starts_with("SSN=") && {
                    if matches_ssn_class(&r.class, &sctp) {
                        let e = ssn_ordinals.entry((dir, r.class.clone())).or_insert(0);
                        let hit = *e == r.ordinal;
                        *e += 1;
                        hit
                    } else {
                        false
                    }
                };
                if ssn_hit
                    || my_ord
                        .iter()
                        .any(|(c, o)| *c == r.class.as_str() && *o == r.ordinal)
                {
                    fired[ri] = true;
                    let label = format!("{}:{}#{}:{:?}", r.dir.name(), r.class, r.ordinal, r.action);
                    action = Some((r.action.clone(), label));
                    break;
                }
            }
            if action.is_none() && (kind == Kind::App || kind == Kind::AppOpaque) {
                if let Some(rp) = &plan.random {
                    let n = sctp_count.entry(dir).or_insert(0);
                    let my_n = *n;
                    *n += 1;
                    let is_setup = !cookie_ack_seen
                        || classes.iter().any(|c| {
                            matches!(*c, "INIT" | "INIT_ACK" | "COOKIE_ECHO" | "COOKIE_ACK")
                        });
                    if my_n < rp.packets && (rp.include_setup || !is_setup) {
                        let mut r = rng_base.fork(((dir as u64) << 32) | my_n as u64);
                        let x = r.below(1000) as u32;
                        if x < rp.loss_pm {
                            action = Some((Action::Drop, "random:drop".into()));
                        } else if x < rp.loss_pm + rp.dup_pm {
                            action = Some((
                                Action::Dup {
                                    copies: 1 + r.below(2) as u32,
                                    delay_ms: r.below(rp.max_delay_ms.max(1)),
                                },
                                "random:dup".into(),
                            ));
                        } else if x < rp.loss_pm + rp.dup_pm + rp.delay_pm {
                            action = Some((
                                Action::Delay {
                                    ms: 1 + r.below(rp.max_delay_ms.max(1)),
                                },
                                "random:delay".into(),
                            ));
                        }
                    }
                }
            }
            // all rules fired and the random budget used up in both directions => healed
            let rules_done = fired.iter().all(|f| *f);
            let random_done = match &plan.random {
                None => true,
                Some(rp) => {
                    sctp_count.get(&Dir::A2B).copied().unwrap_or(0) >= rp.packets
                        && sctp_count.get(&Dir::B2A).copied().unwrap_or(0) >= rp.packets
                }
            };
            if rules_done && random_done && action.is_none() {
                shared.heal();
            }
        }

        if let Some((_, label)) = &action {
            let mut log = shared.log.lock();
            log[idx].fault = Some(label.clone());
            let mut st = shared.stats.lock();
            if label.starts_with("random:") {
                st.random_faults += 1;
            } else {
                st.rules_fired.push(label.clone());
            }
        }

        match action.map(|a| a.0) {
            None => {
                deliver(&ends, &shared, dir, idx, data, &mut mbuf).await;
                // release swap-holds of this direction: they go after this datagram
                if let Some(v) = held.get_mut(&dir) {
                    for (hidx, hdata, _) in v.drain(..) {
                        deliver(&ends, &shared, dir, hidx, hdata, &mut mbuf).await;
                    }
                }
            }
            Some(Action::Drop) => {}
            Some(Action::Dup { copies, delay_ms }) => {
                deliver(&ends, &shared, dir, idx, data.clone(), &mut mbuf).await;
                for i in 1..=copies {
                    if delay_ms == 0 {
                        deliver(&ends, &shared, dir, idx, data.clone(), &mut mbuf).await;
                    } else {
                        order += 1;
                        heap.push(Pending {
                            at: Instant::now() + Duration::from_millis(delay_ms * i as u64),
                            order,
                            dir,
                            idx,
                            data: data.clone(),
                        });
                    }
                }
            }
            Some(Action::Delay { ms }) => {
                order += 1;
                heap.push(Pending {
                    at: Instant::now() + Duration::from_millis(ms),
                    order,
                    dir,
                    idx,
                    data,
                });
            }
            Some(Action::SwapNext) => {
                held.entry(dir).or_default().push((
                    idx,
                    data,
                    Instant::now() + Duration::from_millis(400),
                ));
            }
        }
    }
}
