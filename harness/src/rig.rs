//! Endpoint construction for the component rig (IceConn + DtlsTransport + SctpTransport +
//! DataChannels through rustrtc's public API) and the registry for the SCTP tap hook (H2).

use crate::sctprd::{self, SctpPacket};
use crate::wire::{Plan, WireEnds, WireShared, spawn_wire};
use anyhow::{Result, anyhow};
use parking_lot::Mutex;
use rustrtc::RtcConfiguration;
use rustrtc::transports::datachannel::{DataChannel, DataChannelConfig};
use rustrtc::transports::dtls::{self, DtlsState, DtlsTransport};
use rustrtc::transports::ice::IceSocketWrapper;
use rustrtc::transports::ice::conn::IceConn;
use rustrtc::transports::sctp::SctpTransport;
use std::collections::HashMap;
use std::sync::atomic::{AtomicU16, Ordering};
use std::sync::{Arc, OnceLock, Weak};
use std::time::Duration;
use tokio::net::UdpSocket;
use tokio::sync::{mpsc, watch};
use tokio::task::JoinHandle;

// ---------------------------------------------------------------- tap registry (hook H2)

#[derive(Clone, Debug)]
pub struct TapEv {
    pub tx: bool,
    pub t_us: u64,
    pub pkt: SctpPacket,
    pub raw_len: usize,
}

pub type TapLog = Arc<Mutex<Vec<TapEv>>>;

static TAPS: OnceLock<Mutex<HashMap<usize, (TapLog, std::time::Instant)>>> = OnceLock::new();

fn taps() -> &'static Mutex<HashMap<usize, (TapLog, std::time::Instant)>> {
    TAPS.get_or_init(|| Mutex::new(HashMap::new()))
}

/// Install the process-wide tap once; per-association logs are registered by id.
pub fn install_tap() {
    rustrtc::transports::sctp::verif::set_tap(Box::new(|id, dir, data| {
        let entry = taps().lock().get(&id).cloned();
        if let Some((log, start)) = entry {
            if let Some(mut pkt) = sctprd::parse(data) {
                // keep the log small: drop payload bytes, keep lengths
                for c in pkt.chunks.iter_mut() {
                    if let sctprd::Chunk::Data(d) = c {
                        d.payload = Vec::new();
                    }
                }
                log.lock().push(TapEv {
                    tx: dir == rustrtc::transports::sctp::verif::TAP_TX,
                    t_us: start.elapsed().as_micros() as u64,
                    pkt,
                    raw_len: data.len(),
                });
            }
        }
    }));
}

pub fn register_tap(id: usize, start: std::time::Instant) -> TapLog {
    let log: TapLog = Arc::new(Mutex::new(Vec::new()));
    taps().lock().insert(id, (log.clone(), start));
    log
}

pub fn unregister_tap(id: usize) {
    taps().lock().remove(&id);
}

// ---------------------------------------------------------------- endpoints

static NEXT_PORT: AtomicU16 = AtomicU16::new(6000);

/// a process-unique SCTP port number (used as the key of the forced-initial-TSN hook)
pub fn unique_sctp_port() -> u16 {
    let p = NEXT_PORT.fetch_add(1, Ordering::SeqCst);
    if p > 60000 {
        NEXT_PORT.store(6000, Ordering::SeqCst);
    }
    p
}

#[derive(Clone, Debug)]
pub struct ChanSpec {
    pub id: u16,
    pub ordered: bool,
    pub max_retransmits: Option<u16>,
    pub max_lifetime_ms: Option<u16>,
    pub negotiated: bool,
    /// for in-band channels: which side creates it ('a' or 'b')
    pub creator: char,
    pub label: String,
    pub protocol: String,
}

impl ChanSpec {
    pub fn reliable(&self) -> bool {
        self.max_retransmits.is_none() && self.max_lifetime_ms.is_none()
    }
    pub fn config(&self) -> DataChannelConfig {
        DataChannelConfig {
            label: self.label.clone(),
            protocol: self.protocol.clone(),
            ordered: self.ordered,
            max_retransmits: self.max_retransmits,
            max_packet_life_time: self.max_lifetime_ms,
            max_payload_size: None,
            negotiated: if self.negotiated { Some(self.id) } else { None },
        }
    }
}

pub struct Endpoint {
    pub name: char,
    pub is_client: bool,
    pub sock: Arc<UdpSocket>,
    pub conn: Arc<IceConn>,
    pub dtls: Arc<DtlsTransport>,
    pub sctp: Arc<SctpTransport>,
    pub sctp_port: u16,
    pub chan_list: Arc<Mutex<Vec<Weak<DataChannel>>>>,
    /// channels created locally (negotiated on both sides, in-band on the creator's side)
    pub channels: Vec<Arc<DataChannel>>,
    pub new_dc_rx: Option<mpsc::UnboundedReceiver<Arc<DataChannel>>>,
    pub tap: TapLog,
    pub tasks: Vec<JoinHandle<()>>,
    _sock_tx: watch::Sender<Option<IceSocketWrapper>>,
}

pub struct Rig {
    pub a: Endpoint,
    pub b: Endpoint,
    pub wire: Arc<WireShared>,
    pub start: std::time::Instant,
}

pub struct RigCfg {
    pub cfg: RtcConfiguration,
    pub chans: Vec<ChanSpec>,
    pub plan: Plan,
    /// forced initial TSN for a / b (hook H1)
    pub force_tsn_a: Option<u32>,
    pub force_tsn_b: Option<u32>,
    /// which side is the DTLS/SCTP client (sends INIT)
    pub a_is_client: bool,
}

async fn bind() -> Result<Arc<UdpSocket>> {
    Ok(Arc::new(UdpSocket::bind("127.0.0.1:0").await?))
}

/// Build two endpoints joined by the wire, start every runner. The DTLS handshake then runs
/// through the wire; SCTP starts by itself once DTLS is connected.
pub async fn build_rig(rc: RigCfg) -> Result<Rig> {
    let start = std::time::Instant::now();
    let sa = bind().await?;
    let sb = bind().await?;
    let wa = bind().await?;
    let wb = bind().await?;
    let (tx_a, _) = watch::channel(Some(IceSocketWrapper::Udp(sa.clone())));
    let (tx_b, _) = watch::channel(Some(IceSocketWrapper::Udp(sb.clone())));
    let conn_a = IceConn::new(tx_a.subscribe(), wa.local_addr()?, None);
    let conn_b = IceConn::new(tx_b.subscribe(), wb.local_addr()?, None);
    let cert_a = dtls::generate_certificate()?;
    let cert_b = dtls::generate_certificate()?;
    let fp_a = dtls::fingerprint(&cert_a);
    let fp_b = dtls::fingerprint(&cert_b);

    let (dtls_a, rx_a, run_a) =
        DtlsTransport::new(conn_a.clone(), cert_a, rc.a_is_client, 1500, Some(fp_b)).await?;
    let (dtls_b, rx_b, run_b) =
        DtlsTransport::new(conn_b.clone(), cert_b, !rc.a_is_client, 1500, Some(fp_a)).await?;

    let port_a = unique_sctp_port();
    let port_b = unique_sctp_port();
    if let Some(t) = rc.force_tsn_a {
        rustrtc::transports::sctp::verif::force_initial_tsn(port_a, rc.a_is_client, t);
    }
    if let Some(t) = rc.force_tsn_b {
        rustrtc::transports::sctp::verif::force_initial_tsn(port_b, !rc.a_is_client, t);
    }

    let list_a: Arc<Mutex<Vec<Weak<DataChannel>>>> = Arc::new(Mutex::new(Vec::new()));
    let list_b: Arc<Mutex<Vec<Weak<DataChannel>>>> = Arc::new(Mutex::new(Vec::new()));
    let mut chans_a = vec![];
    let mut chans_b = vec![];
    for c in &rc.chans {
        if c.negotiated || c.creator == 'a' {
            let dc = Arc::new(DataChannel::new(c.id, c.config()));
            list_a.lock().push(Arc::downgrade(&dc));
            chans_a.push(dc);
        }
        if c.negotiated || c.creator == 'b' {
            let dc = Arc::new(DataChannel::new(c.id, c.config()));
            list_b.lock().push(Arc::downgrade(&dc));
            chans_b.push(dc);
        }
    }
    let (ndc_tx_a, ndc_rx_a) = mpsc::unbounded_channel();
    let (ndc_tx_b, ndc_rx_b) = mpsc::unbounded_channel();
    let (sctp_a, srun_a) = SctpTransport::new(
        dtls_a.clone(),
        rx_a,
        list_a.clone(),
        port_a,
        port_b,
        Some(ndc_tx_a),
        rc.a_is_client,
        &rc.cfg,
    );
    let (sctp_b, srun_b) = SctpTransport::new(
        dtls_b.clone(),
        rx_b,
        list_b.clone(),
        port_b,
        port_a,
        Some(ndc_tx_b),
        !rc.a_is_client,
        &rc.cfg,
    );
    let tap_a = register_tap(sctp_a.verif_id(), start);
    let tap_b = register_tap(sctp_b.verif_id(), start);

    let wire = spawn_wire(
        WireEnds {
            wa,
            wb,
            conn_a: conn_a.clone(),
            conn_b: conn_b.clone(),
            dtls_a: dtls_a.clone(),
            a_is_client: rc.a_is_client,
        },
        rc.plan,
    );

    let ta = vec![tokio::spawn(run_a), tokio::spawn(srun_a)];
    let tb = vec![tokio::spawn(run_b), tokio::spawn(srun_b)];

    Ok(Rig {
        a: Endpoint {
            name: 'a',
            is_client: rc.a_is_client,
            sock: sa,
            conn: conn_a,
            dtls: dtls_a,
            sctp: sctp_a,
            sctp_port: port_a,
            chan_list: list_a,
            channels: chans_a,
            new_dc_rx: Some(ndc_rx_a),
            tap: tap_a,
            tasks: ta,
            _sock_tx: tx_a,
        },
        b: Endpoint {
            name: 'b',
            is_client: !rc.a_is_client,
            sock: sb,
            conn: conn_b,
            dtls: dtls_b,
            sctp: sctp_b,
            sctp_port: port_b,
            chan_list: list_b,
            channels: chans_b,
            new_dc_rx: Some(ndc_rx_b),
            tap: tap_b,
            tasks: tb,
            _sock_tx: tx_b,
        },
        wire,
        start,
    })
}

impl Rig {
    /// wait until both DTLS transports are Connected (or one failed)
    pub async fn wait_dtls(&self, max: Duration) -> Result<()> {
        let deadline = tokio::time::Instant::now() + max;
        loop {
            let sa = self.a.dtls.get_state();
            let sb = self.b.dtls.get_state();
            if matches!(sa, DtlsState::Connected(..)) && matches!(sb, DtlsState::Connected(..)) {
                return Ok(());
            }
            if matches!(sa, DtlsState::Failed | DtlsState::Closed)
                || matches!(sb, DtlsState::Failed | DtlsState::Closed)
            {
                return Err(anyhow!("dtls failed during rig setup"));
            }
            if tokio::time::Instant::now() > deadline {
                return Err(anyhow!("dtls setup timeout"));
            }
            tokio::time::sleep(Duration::from_millis(5)).await;
        }
    }

    pub fn teardown(&mut self) {
        self.wire.stop.store(true, Ordering::SeqCst);
        unregister_tap(self.a.sctp.verif_id());
        unregister_tap(self.b.sctp.verif_id());
        self.a.sctp.close();
        self.b.sctp.close();
        self.a.dtls.close();
        self.b.dtls.close();
        for t in self.a.tasks.drain(..).chain(self.b.tasks.drain(..)) {
            t.abort();
        }
    }
}
