//! rtcmon – runtime monitors for restsend/rustrtc (see /verif/DESIGN.md).
pub mod alloc_count;
pub mod common;
pub mod engines;
pub mod rig;
pub mod sctprd;
pub mod wire;
