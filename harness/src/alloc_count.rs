//! Counting global allocator (DESIGN.md §2.4, used by C07).
//!
//! * per-thread "bytes allocated so far" counter (a plain thread-local `Cell`, no atomics):
//!   an engine reads it before and after a call on the same thread to learn how many bytes that
//!   call requested from the allocator;
//! * process-wide live-heap estimate kept in 64 cache-line-padded shards (one relaxed atomic add
//!   per alloc/dealloc on a shard chosen per thread), so that engines which do not care pay a few
//!   nanoseconds per allocation and there is no contended cache line.
//!
//! The allocator never allocates itself and never panics (thread-locals are const-initialised
//! and have no destructor; `try_with` guards thread teardown).

use std::alloc::{GlobalAlloc, Layout, System};
use std::cell::Cell;
use std::sync::atomic::{AtomicI64, AtomicUsize, Ordering};

pub struct CountingAlloc;

#[repr(align(128))]
struct Shard(AtomicI64);

const NSHARDS: usize = 64;
#[allow(clippy::declare_interior_mutable_const)]
const SHARD_INIT: Shard = Shard(AtomicI64::new(0));
static LIVE: [Shard; NSHARDS] = [SHARD_INIT; NSHARDS];
static NEXT_SHARD: AtomicUsize = AtomicUsize::new(0);

/// Per-"tag" net heap (allocated − freed by threads carrying that tag). A live campaign runs on
/// its own threads (driver + private tokio runtime) which all carry the campaign's tag, so its
/// heap growth can be read while other campaigns run in parallel. Tag 0 = untagged.
pub const NTAGS: usize = 128;
static TAG_NET: [Shard; NTAGS] = [SHARD_INIT; NTAGS];

thread_local! {
    static T_TAG: Cell<usize> = const { Cell::new(0) };
    static T_ALLOCATED: Cell<u64> = const { Cell::new(0) };
    static T_SHARD: Cell<usize> = const { Cell::new(usize::MAX) };
}

#[inline]
fn shard() -> usize {
    T_SHARD
        .try_with(|s| {
            let mut v = s.get();
            if v == usize::MAX {
                v = NEXT_SHARD.fetch_add(1, Ordering::Relaxed) % NSHARDS;
                s.set(v);
            }
            v
        })
        .unwrap_or(0)
}

#[inline]
fn note_alloc(n: usize) {
    let _ = T_ALLOCATED.try_with(|c| c.set(c.get().wrapping_add(n as u64)));
    LIVE[shard()].0.fetch_add(n as i64, Ordering::Relaxed);
    let t = T_TAG.try_with(|c| c.get()).unwrap_or(0);
    if t != 0 {
        TAG_NET[t % NTAGS].0.fetch_add(n as i64, Ordering::Relaxed);
    }
}

#[inline]
fn note_free(n: usize) {
    LIVE[shard()].0.fetch_sub(n as i64, Ordering::Relaxed);
    let t = T_TAG.try_with(|c| c.get()).unwrap_or(0);
    if t != 0 {
        TAG_NET[t % NTAGS].0.fetch_sub(n as i64, Ordering::Relaxed);
    }
}

unsafe impl GlobalAlloc for CountingAlloc {
    unsafe fn alloc(&self, layout: Layout) -> *mut u8 {
        let p = unsafe { System.alloc(layout) };
        if !p.is_null() {
            note_alloc(layout.size());
        }
        p
    }
    unsafe fn alloc_zeroed(&self, layout: Layout) -> *mut u8 {
        let p = unsafe { System.alloc_zeroed(layout) };
        if !p.is_null() {
            note_alloc(layout.size());
        }
        p
    }
    unsafe fn dealloc(&self, ptr: *mut u8, layout: Layout) {
        unsafe { System.dealloc(ptr, layout) };
        note_free(layout.size());
    }
    unsafe fn realloc(&self, ptr: *mut u8, layout: Layout, new_size: usize) -> *mut u8 {
        let p = unsafe { System.realloc(ptr, layout, new_size) };
        if !p.is_null() {
            // only growth counts as "allocated" (a shrinking realloc requests nothing new)
            if new_size > layout.size() {
                note_alloc(new_size - layout.size());
            } else {
                note_free(layout.size() - new_size);
            }
        }
        p
    }
}

/// Bytes requested from the allocator by the *current thread* since it started.
pub fn thread_allocated() -> u64 {
    T_ALLOCATED.try_with(|c| c.get()).unwrap_or(0)
}

/// Process-wide live heap bytes (sum over shards; exact when the process is quiescent).
pub fn live_bytes() -> i64 {
    LIVE.iter().map(|s| s.0.load(Ordering::Relaxed)).sum()
}

/// Tag the current thread (1..NTAGS-1; 0 removes the tag).
pub fn set_thread_tag(tag: usize) {
    let _ = T_TAG.try_with(|c| c.set(tag % NTAGS));
}

pub fn thread_tag() -> usize {
    T_TAG.try_with(|c| c.get()).unwrap_or(0)
}

/// Net heap bytes (allocated − freed) by threads carrying `tag` since `reset_tag`.
pub fn tag_net_bytes(tag: usize) -> i64 {
    TAG_NET[tag % NTAGS].0.load(Ordering::Relaxed)
}

pub fn reset_tag(tag: usize) {
    TAG_NET[tag % NTAGS].0.store(0, Ordering::Relaxed);
}
