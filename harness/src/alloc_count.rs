//! Counting global allocator (DESIGN.md §2.4, used by C07).
//!
//! * per-thread "bytes allocated so far" counter (a plain thread-local `Cell`, no atomics):
//!   an engine reads it before and after a call on the same thread to learn how many bytes that
//!   call requested from the allocator;
//! * process-wide live-heap estimate kept in 64 cache-line-padded shards (one relaxed atomic add
//!   per alloc/dealloc on a shard chosen per thread), so that engines which do not care pay a few
//!   nanoseconds per allocation and there is no contended cache line.
//!
//! * per-tag "largest single allocation" monitor: one relaxed load per allocation on a tagged
//!   thread keeps the largest block requested so far (`tag_max_single`); a block larger than the
//!   tag's threshold (`set_tag_big_threshold`, disabled by default) plus twice the tag's live
//!   heap at that moment (a container holding accumulated state may double) is a rare event and
//!   is recorded together with an (unresolved) backtrace, so that the engine can later tell
//!   whether the request was made from rustrtc code or by the harness itself.
//!
//! The allocator never panics (thread-locals are const-initialised and have no destructor;
//! `try_with` guards thread teardown). The only path on which it allocates is the rare
//! "block above threshold" event, which is protected by a thread-local re-entrancy guard.

use std::alloc::{GlobalAlloc, Layout, System};
use std::cell::Cell;
use std::sync::atomic::{AtomicI64, AtomicUsize, Ordering};
use std::sync::Mutex;

pub struct CountingAlloc;

#[repr(align(128))]
struct Shard(AtomicI64);

const NSHARDS: usize = 64;
#[allow(clippy::declare_interior_mutable_const)]
const SHARD_INIT: Shard = Shard(AtomicI64::new(0));
static LIVE: [Shard; NSHARDS] = [SHARD_INIT; NSHARDS];
static NEXT_SHARD: AtomicUsize = AtomicUsize::new(0);

/// Per-"tag" net heap (allocated − freed by threads carrying that tag). A live campaign runs on
/// its own threads (driver + private tokio runtime) which all carry the campaign's tag, so its
/// heap growth can be read while other campaigns run in parallel. Tag 0 = untagged.
pub const NTAGS: usize = 128;
static TAG_NET: [Shard; NTAGS] = [SHARD_INIT; NTAGS];

/// Largest-single-allocation monitor of one tag.
#[repr(align(128))]
struct TagMon {
    /// largest block requested by a thread carrying the tag since `reset_tag`
    max: AtomicUsize,
    /// a block larger than this is recorded as a `BigAlloc` (usize::MAX = monitor off)
    threshold: AtomicUsize,
    /// number of blocks above the bound since `reset_tag` (recorded or not)
    events: AtomicUsize,
    /// value of the tag's net heap that counts as "nothing held yet" (`set_tag_heap_base`)
    base: AtomicI64,
}
#[allow(clippy::declare_interior_mutable_const)]
const TAGMON_INIT: TagMon = TagMon {
    max: AtomicUsize::new(0),
    threshold: AtomicUsize::new(usize::MAX),
    events: AtomicUsize::new(0),
    base: AtomicI64::new(0),
};
static TAG_MON: [TagMon; NTAGS] = [TAGMON_INIT; NTAGS];

/// At most this many above-threshold blocks are recorded with a backtrace per tag.
pub const MAX_BIG_EVENTS_PER_TAG: usize = 24;

/// One block above the tag's bound (`threshold` = static threshold + 2 × live heap of the tag
/// when the block was requested, `live_before` = that live heap). The backtrace is captured unresolved (cheap); resolve
/// it (`to_string`) on an *untagged* thread.
pub struct BigAlloc {
    pub tag: usize,
    pub size: usize,
    pub threshold: usize,
    pub live_before: usize,
    pub thread: String,
    pub backtrace: std::backtrace::Backtrace,
}
static BIG_ALLOCS: Mutex<Vec<BigAlloc>> = Mutex::new(Vec::new());

thread_local! {
    static T_IN_BIG: Cell<bool> = const { Cell::new(false) };
    static T_TAG: Cell<usize> = const { Cell::new(0) };
    static T_ALLOCATED: Cell<u64> = const { Cell::new(0) };
    static T_SHARD: Cell<usize> = const { Cell::new(usize::MAX) };
}

#[inline]
fn shard() -> usize {
    T_SHARD
        .try_with(|s| {
            let mut v = s.get();
            if v == usize::MAX {
                v = NEXT_SHARD.fetch_add(1, Ordering::Relaxed) % NSHARDS;
                s.set(v);
            }
            v
        })
        .unwrap_or(0)
}

#[inline]
fn note_alloc(n: usize) {
    let _ = T_ALLOCATED.try_with(|c| c.set(c.get().wrapping_add(n as u64)));
    LIVE[shard()].0.fetch_add(n as i64, Ordering::Relaxed);
    let t = T_TAG.try_with(|c| c.get()).unwrap_or(0);
    if t != 0 {
        TAG_NET[t % NTAGS].0.fetch_add(n as i64, Ordering::Relaxed);
    }
}

/// `size` = size of the block requested (for a growing realloc: the new size, `prev` = the old).
#[inline]
fn note_block(size: usize, prev: usize) {
    let t = T_TAG.try_with(|c| c.get()).unwrap_or(0);
    if t == 0 {
        return;
    }
    let m = &TAG_MON[t % NTAGS];
    if size > m.max.load(Ordering::Relaxed) {
        m.max.fetch_max(size, Ordering::Relaxed);
    }
    let thr = m.threshold.load(Ordering::Relaxed);
    if size > thr {
        big_block(t % NTAGS, size, prev, thr);
    }
}

#[cold]
#[inline(never)]
fn big_block(tag: usize, size: usize, prev: usize, threshold: usize) {
    // what the tag held before this request (the net counter already contains the new block
    // in place of the old one): an amortised container growth asks for about twice of it
    let net = TAG_NET[tag].0.load(Ordering::Relaxed) - TAG_MON[tag].base.load(Ordering::Relaxed);
    let live_before = (net - size as i64 + prev as i64).max(0) as usize;
    let threshold = threshold.saturating_add(live_before.saturating_mul(2));
    if size <= threshold {
        return;
    }
    // re-entrancy guard: everything below allocates (small blocks) through this allocator
    let entered = T_IN_BIG
        .try_with(|g| {
            if g.get() {
                false
            } else {
                g.set(true);
                true
            }
        })
        .unwrap_or(false);
    if !entered {
        return;
    }
    let k = TAG_MON[tag].events.fetch_add(1, Ordering::Relaxed);
    if k < MAX_BIG_EVENTS_PER_TAG {
        let thread = std::thread::current().name().unwrap_or("?").to_string();
        let backtrace = std::backtrace::Backtrace::force_capture();
        if let Ok(mut g) = BIG_ALLOCS.lock() {
            g.push(BigAlloc { tag, size, threshold, live_before, thread, backtrace });
        }
    }
    let _ = T_IN_BIG.try_with(|g| g.set(false));
}

#[inline]
fn note_free(n: usize) {
    LIVE[shard()].0.fetch_sub(n as i64, Ordering::Relaxed);
    let t = T_TAG.try_with(|c| c.get()).unwrap_or(0);
    if t != 0 {
        TAG_NET[t % NTAGS].0.fetch_sub(n as i64, Ordering::Relaxed);
    }
}

unsafe impl GlobalAlloc for CountingAlloc {
    unsafe fn alloc(&self, layout: Layout) -> *mut u8 {
        let p = unsafe { System.alloc(layout) };
        if !p.is_null() {
            note_alloc(layout.size());
            note_block(layout.size(), 0);
        }
        p
    }
    unsafe fn alloc_zeroed(&self, layout: Layout) -> *mut u8 {
        let p = unsafe { System.alloc_zeroed(layout) };
        if !p.is_null() {
            note_alloc(layout.size());
            note_block(layout.size(), 0);
        }
        p
    }
    unsafe fn dealloc(&self, ptr: *mut u8, layout: Layout) {
        unsafe { System.dealloc(ptr, layout) };
        note_free(layout.size());
    }
    unsafe fn realloc(&self, ptr: *mut u8, layout: Layout, new_size: usize) -> *mut u8 {
        let p = unsafe { System.realloc(ptr, layout, new_size) };
        if !p.is_null() {
            // only growth counts as "allocated" (a shrinking realloc requests nothing new)
            if new_size > layout.size() {
                note_alloc(new_size - layout.size());
                note_block(new_size, layout.size());
            } else {
                note_free(layout.size() - new_size);
            }
        }
        p
    }
}

/// Bytes requested from the allocator by the *current thread* since it started.
pub fn thread_allocated() -> u64 {
    T_ALLOCATED.try_with(|c| c.get()).unwrap_or(0)
}

/// Process-wide live heap bytes (sum over shards; exact when the process is quiescent).
pub fn live_bytes() -> i64 {
    LIVE.iter().map(|s| s.0.load(Ordering::Relaxed)).sum()
}

/// Tag the current thread (1..NTAGS-1; 0 removes the tag).
pub fn set_thread_tag(tag: usize) {
    let _ = T_TAG.try_with(|c| c.set(tag % NTAGS));
}

pub fn thread_tag() -> usize {
    T_TAG.try_with(|c| c.get()).unwrap_or(0)
}

/// Net heap bytes (allocated − freed) by threads carrying `tag` since `reset_tag`.
pub fn tag_net_bytes(tag: usize) -> i64 {
    TAG_NET[tag % NTAGS].0.load(Ordering::Relaxed)
}

pub fn reset_tag(tag: usize) {
    TAG_NET[tag % NTAGS].0.store(0, Ordering::Relaxed);
    let m = &TAG_MON[tag % NTAGS];
    m.threshold.store(usize::MAX, Ordering::Relaxed);
    m.max.store(0, Ordering::Relaxed);
    m.events.store(0, Ordering::Relaxed);
    m.base.store(0, Ordering::Relaxed);
    let _ = take_big_allocs(tag);
}

/// Largest single block requested by threads carrying `tag` since `reset_tag` (harness
/// allocations on those threads included).
pub fn tag_max_single(tag: usize) -> usize {
    TAG_MON[tag % NTAGS].max.load(Ordering::Relaxed)
}

/// Record (with a backtrace) every block larger than `bytes` requested by a thread carrying
/// `tag`; `usize::MAX` switches the recording off.
pub fn set_tag_big_threshold(tag: usize, bytes: usize) {
    TAG_MON[tag % NTAGS].threshold.store(bytes, Ordering::Relaxed);
}

/// The value of `tag_net_bytes(tag)` from which the tag's live heap is counted by the
/// large-block monitor (an engine re-baselines after its own set-up).
pub fn set_tag_heap_base(tag: usize, base: i64) {
    TAG_MON[tag % NTAGS].base.store(base, Ordering::Relaxed);
}

/// Run `f` with the current thread untagged: what an engine's own tooling allocates (for
/// example a rustrtc object it uses as a *sender*) is not the monitored endpoint's memory.
pub fn untagged<T>(f: impl FnOnce() -> T) -> T {
    let t = thread_tag();
    set_thread_tag(0);
    let r = f();
    set_thread_tag(t);
    r
}

/// Number of blocks above the threshold since `reset_tag` (may exceed what was recorded).
pub fn tag_big_events(tag: usize) -> usize {
    TAG_MON[tag % NTAGS].events.load(Ordering::Relaxed)
}

/// Remove and return the recorded above-threshold blocks of `tag`.
pub fn take_big_allocs(tag: usize) -> Vec<BigAlloc> {
    // the vector operations below allocate: keep them out of the monitor
    let prev = T_IN_BIG.try_with(|g| g.replace(true)).unwrap_or(true);
    let mut out = Vec::new();
    if let Ok(mut g) = BIG_ALLOCS.lock() {
        let mut i = 0;
        while i < g.len() {
            if g[i].tag == tag % NTAGS {
                out.push(g.swap_remove(i));
            } else {
                i += 1;
            }
        }
    }
    let _ = T_IN_BIG.try_with(|g| g.set(prev));
    out
}
