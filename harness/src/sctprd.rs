//! Harness-own SCTP packet / chunk reader (independent of rustrtc's parser) and a few
//! builders used to craft packets. CRC32c comes from the `crc32c` crate.

use serde_json::{Value, json};

pub const CT_DATA: u8 = 0;
pub const CT_INIT: u8 = 1;
pub const CT_INIT_ACK: u8 = 2;
pub const CT_SACK: u8 = 3;
pub const CT_HEARTBEAT: u8 = 4;
pub const CT_HEARTBEAT_ACK: u8 = 5;
pub const CT_ABORT: u8 = 6;
pub const CT_SHUTDOWN: u8 = 7;
pub const CT_SHUTDOWN_ACK: u8 = 8;
pub const CT_ERROR: u8 = 9;
pub const CT_COOKIE_ECHO: u8 = 10;
pub const CT_COOKIE_ACK: u8 = 11;
pub const CT_RECONFIG: u8 = 130;
pub const CT_FORWARD_TSN: u8 = 192;

pub fn chunk_name(t: u8) -> &'static str {
    match t {
        CT_DATA => "DATA",
        CT_INIT => "INIT",
        CT_INIT_ACK => "INIT_ACK",
        CT_SACK => "SACK",
        CT_HEARTBEAT => "HEARTBEAT",
        CT_HEARTBEAT_ACK => "HB_ACK",
        CT_ABORT => "ABORT",
        CT_SHUTDOWN => "SHUTDOWN",
        CT_SHUTDOWN_ACK => "SHUTDOWN_ACK",
        CT_ERROR => "ERROR",
        CT_COOKIE_ECHO => "COOKIE_ECHO",
        CT_COOKIE_ACK => "COOKIE_ACK",
        CT_RECONFIG => "RECONFIG",
        CT_FORWARD_TSN => "FWD_TSN",
        _ => "OTHER",
    }
}

#[derive(Clone, Debug)]
pub struct DataChunk {
    pub tsn: u32,
    pub stream: u16,
    pub ssn: u16,
    pub ppid: u32,
    pub flags: u8,
    pub payload_len: usize,
    pub payload: Vec<u8>,
}

#[derive(Clone, Debug)]
pub struct SackChunk {
    pub cum_tsn: u32,
    pub a_rwnd: u32,
    pub gaps: Vec<(u16, u16)>,
    pub dups: Vec<u32>,
}

impl SackChunk {
    /// does this SACK acknowledge `tsn` (cumulatively or in a gap block)?
    pub fn covers(&self, tsn: u32) -> bool {
        if serial_le(tsn, self.cum_tsn) {
            return true;
        }
        let off = tsn.wrapping_sub(self.cum_tsn);
        self.gaps
            .iter()
            .any(|(s, e)| off >= *s as u32 && off <= *e as u32)
    }
}

#[derive(Clone, Debug)]
pub struct InitChunk {
    pub initiate_tag: u32,
    pub a_rwnd: u32,
    pub out_streams: u16,
    pub in_streams: u16,
    pub initial_tsn: u32,
}

#[derive(Clone, Debug)]
pub enum Chunk {
    Data(DataChunk),
    Sack(SackChunk),
    Init(InitChunk),
    InitAck(InitChunk),
    ForwardTsn { new_cum_tsn: u32, streams: Vec<(u16, u16)> },
    Other { ctype: u8, flags: u8, len: usize },
}

impl Chunk {
    pub fn ctype(&self) -> u8 {
        match self {
            Chunk::Data(_) => CT_DATA,
            Chunk::Sack(_) => CT_SACK,
            Chunk::Init(_) => CT_INIT,
            Chunk::InitAck(_) => CT_INIT_ACK,
            Chunk::ForwardTsn { .. } => CT_FORWARD_TSN,
            Chunk::Other { ctype, .. } => *ctype,
        }
    }
    pub fn name(&self) -> &'static str {
        chunk_name(self.ctype())
    }
}

#[derive(Clone, Debug)]
pub struct SctpPacket {
    pub src_port: u16,
    pub dst_port: u16,
    pub vtag: u32,
    pub checksum_ok: bool,
    pub len: usize,
    pub chunks: Vec<Chunk>,
    /// true when the chunk walk consumed the packet exactly (no trailing garbage / bad length)
    pub well_formed: bool,
}

impl SctpPacket {
    pub fn has(&self, t: u8) -> bool {
        self.chunks.iter().any(|c| c.ctype() == t)
    }
    pub fn data(&self) -> impl Iterator<Item = &DataChunk> {
        self.chunks.iter().filter_map(|c| match c {
            Chunk::Data(d) => Some(d),
            _ => None,
        })
    }
    pub fn sacks(&self) -> impl Iterator<Item = &SackChunk> {
        self.chunks.iter().filter_map(|c| match c {
            Chunk::Sack(s) => Some(s),
            _ => None,
        })
    }
    pub fn summary(&self) -> String {
        let mut s = String::new();
        for (i, c) in self.chunks.iter().enumerate() {
            if i > 0 {
                s.push('+');
            }
            match c {
                Chunk::Data(d) => s.push_str(&format!(
                    "DATA(tsn={},s={},ssn={},f={:x},{}B)",
                    d.tsn, d.stream, d.ssn, d.flags, d.payload_len
                )),
                Chunk::Sack(k) => s.push_str(&format!(
                    "SACK(cum={},rwnd={},gaps={:?})",
                    k.cum_tsn, k.a_rwnd, k.gaps
                )),
                other => s.push_str(other.name()),
            }
        }
        s
    }
    pub fn to_json(&self) -> Value {
        json!({"vtag": self.vtag, "len": self.len, "crc_ok": self.checksum_ok, "chunks": self.summary()})
    }
}

pub fn crc32c_of_packet(pkt: &[u8]) -> u32 {
    let mut z = pkt.to_vec();
    if z.len() >= 12 {
        z[8..12].copy_from_slice(&[0, 0, 0, 0]);
    }
    crc32c::crc32c(&z)
}

fn be16(b: &[u8]) -> u16 {
    u16::from_be_bytes([b[0], b[1]])
}
fn be32(b: &[u8]) -> u32 {
    u32::from_be_bytes([b[0], b[1], b[2], b[3]])
}

pub fn parse(pkt: &[u8]) -> Option<SctpPacket> {
    if pkt.len() < 12 {
        return None;
    }
    let stored = u32::from_le_bytes([pkt[8], pkt[9], pkt[10], pkt[11]]);
    let mut out = SctpPacket {
        src_port: be16(&pkt[0..]),
        dst_port: be16(&pkt[2..]),
        vtag: be32(&pkt[4..]),
        checksum_ok: stored == crc32c_of_packet(pkt),
        len: pkt.len(),
        chunks: vec![],
        well_formed: true,
    };
    let mut i = 12;
    while i < pkt.len() {
        if pkt.len() - i < 4 {
            out.well_formed = false;
            break;
        }
        let ctype = pkt[i];
        let flags = pkt[i + 1];
        let clen = be16(&pkt[i + 2..]) as usize;
        if clen < 4 || i + clen > pkt.len() {
            out.well_formed = false;
            break;
        }
        let v = &pkt[i + 4..i + clen];
        let chunk = match ctype {
            CT_DATA if v.len() >= 12 => Chunk::Data(DataChunk {
                tsn: be32(v),
                stream: be16(&v[4..]),
                ssn: be16(&v[6..]),
                ppid: be32(&v[8..]),
                flags,
                payload_len: v.len() - 12,
                payload: v[12..].to_vec(),
            }),
            CT_SACK if v.len() >= 12 => {
                let ng = be16(&v[8..]) as usize;
                let nd = be16(&v[10..]) as usize;
                let mut gaps = vec![];
                let mut dups = vec![];
                let mut p = 12;
                for _ in 0..ng {
                    if p + 4 > v.len() {
                        break;
                    }
                    gaps.push((be16(&v[p..]), be16(&v[p + 2..])));
                    p += 4;
                }
                for _ in 0..nd {
                    if p + 4 > v.len() {
                        break;
                    }
                    dups.push(be32(&v[p..]));
                    p += 4;
                }
                Chunk::Sack(SackChunk {
                    cum_tsn: be32(v),
                    a_rwnd: be32(&v[4..]),
                    gaps,
                    dups,
                })
            }
            CT_INIT | CT_INIT_ACK if v.len() >= 16 => {
                let ic = InitChunk {
                    initiate_tag: be32(v),
                    a_rwnd: be32(&v[4..]),
                    out_streams: be16(&v[8..]),
                    in_streams: be16(&v[10..]),
                    initial_tsn: be32(&v[12..]),
                };
                if ctype == CT_INIT {
                    Chunk::Init(ic)
                } else {
                    Chunk::InitAck(ic)
                }
            }
            CT_FORWARD_TSN if v.len() >= 4 => {
                let mut streams = vec![];
                let mut p = 4;
                while p + 4 <= v.len() {
                    streams.push((be16(&v[p..]), be16(&v[p + 2..])));
                    p += 4;
                }
                Chunk::ForwardTsn {
                    new_cum_tsn: be32(v),
                    streams,
                }
            }
            _ => Chunk::Other {
                ctype,
                flags,
                len: clen,
            },
        };
        out.chunks.push(chunk);
        let padded = (clen + 3) & !3;
        i += padded;
        if i > pkt.len() {
            // last chunk may legally omit nothing; SCTP requires padding, note it
            if i - pkt.len() < 4 && i - padded + clen == pkt.len() {
                out.well_formed = false; // missing final padding
            }
            break;
        }
    }
    Some(out)
}

/// serial-number arithmetic on 32-bit TSNs
pub fn serial_lt(a: u32, b: u32) -> bool {
    a != b && b.wrapping_sub(a) < 0x8000_0000
}
pub fn serial_le(a: u32, b: u32) -> bool {
    a == b || serial_lt(a, b)
}

// ---------------------------------------------------------------- builders

pub fn build_chunk(ctype: u8, flags: u8, value: &[u8]) -> Vec<u8> {
    let mut c = Vec::with_capacity(4 + value.len() + 3);
    c.push(ctype);
    c.push(flags);
    c.extend_from_slice(&((4 + value.len()) as u16).to_be_bytes());
    c.extend_from_slice(value);
    while c.len() % 4 != 0 {
        c.push(0);
    }
    c
}

pub fn build_packet(src_port: u16, dst_port: u16, vtag: u32, chunks: &[Vec<u8>]) -> Vec<u8> {
    let mut p = Vec::new();
    p.extend_from_slice(&src_port.to_be_bytes());
    p.extend_from_slice(&dst_port.to_be_bytes());
    p.extend_from_slice(&vtag.to_be_bytes());
    p.extend_from_slice(&[0, 0, 0, 0]);
    for c in chunks {
        p.extend_from_slice(c);
    }
    let crc = crc32c::crc32c(&p);
    p[8..12].copy_from_slice(&crc.to_le_bytes());
    p
}
