#!/bin/bash
# usage: mut.sh <name> <old> <new>
cd /tmp/b_c03/repo && git checkout -- . && git apply /tmp/b_c03/allfix.diff || exit 9
python3 - "$2" "$3" <<'P' || exit 8
import sys
p='/tmp/b_c03/repo/src/transports/dtls/mod.rs'
s=open(p).read()
old,new=sys.argv[1],sys.argv[2]
assert s.count(old)>=1, "pattern not found"
s=s.replace(old,new,1)
open(p,'w').write(s)
P
cd /tmp/b_c03/harness && CARGO_NET_OFFLINE=true cargo build --offline 2>&1 | grep -E "^error" -A8 | head -20
cd /tmp/b_c03 && VERIF_ROOT=/tmp/b_c03/out ./target/debug/rtcmon C03 --tier quick > out/mut_$1.log 2>&1; echo "== $1 exit $?"; grep -E "key=|SUMMARY|BROKEN" out/mut_$1.log
