import sys
def patch(p, pairs):
    s=open(p).read()
    for old,new in pairs:
        assert s.count(old)==1, (p, old)
        s=s.replace(old,new,1)
    open(p,'w').write(s)
n=sys.argv[1]
if n=='1':
    patch('src/media/track.rs', [
('''    pop_lock: Arc<SyncMutex<()>>,
    source_closed: Arc<AtomicBool>,
    active_senders: Arc<std::sync::atomic::AtomicUsize>,
    drop_count: Arc<AtomicU64>,
}
''','''    pop_lock: Arc<SyncMutex<()>>,
    /// Serializes producers: the ring is single-producer, but this handle is
    /// `Clone + Sync`, so concurrent `send`s must not reach `push` together.
    push_lock: Arc<SyncMutex<()>>,
    source_closed: Arc<AtomicBool>,
    active_senders: Arc<std::sync::atomic::AtomicUsize>,
    drop_count: Arc<AtomicU64>,
}
'''),
('''        notify,
        pop_lock,
        source_closed,
        active_senders,
        drop_count,
    };
    (source, track, feedback_rx)''','''        notify,
        pop_lock,
        push_lock: Arc::new(SyncMutex::new(())),
        source_closed,
        active_senders,
        drop_count,
    };
    (source, track, feedback_rx)'''),
('''            pop_lock: self.pop_lock.clone(),
            source_closed: self.source_closed.clone(),
            active_senders: self.active_senders.clone(),''','''            pop_lock: self.pop_lock.clone(),
            push_lock: self.push_lock.clone(),
            source_closed: self.source_closed.clone(),
            active_senders: self.active_senders.clone(),'''),
('''            return Err(MediaError::Closed);
        }

        let sample = match self.queue.push(sample) {''','''            return Err(MediaError::Closed);
        }

        let _push_guard = self.push_lock.lock();
        let sample = match self.queue.push(sample) {'''),
('''            return Err(MediaError::Closed);
        }

        self.queue
            .push(sample)
            .map_err(|_| MediaError::WouldBlock)?;''','''            return Err(MediaError::Closed);
        }

        let _push_guard = self.push_lock.lock();
        self.queue
            .push(sample)
            .map_err(|_| MediaError::WouldBlock)?;'''),
    ])
if n=='2':
    patch('src/media/track.rs', [
('''    async fn recv(&self) -> MediaResult<MediaSample> {
        loop {
            if self.ended.load(Ordering::SeqCst) {
                return Err(MediaError::EndOfStream);
            }
''','''    async fn recv(&self) -> MediaResult<MediaSample> {
        loop {
            // Create the `Notified` future before looking at the state: it
            // receives `notify_waiters()` wake-ups from the moment it exists,
            // so a `stop()` / last-source drop racing with the checks below
            // can no longer be missed (`notify_waiters` stores no permit).
            let notified = self.notify.notified();

            if self.ended.load(Ordering::SeqCst) {
                return Err(MediaError::EndOfStream);
            }
'''),
('''            self.notify.notified().await;
            if self.source_closed.load(Ordering::Acquire) && self.queue.is_empty() {''','''            notified.await;
            if self.source_closed.load(Ordering::Acquire) && self.queue.is_empty() {'''),
    ])
if n=='3':
    patch('src/media/track.rs', [
('''            {
                let _pop_guard = self.pop_lock.lock();
                if let Some(sample) = self.queue.pop() {
                    return Ok(sample);
                }
''','''            {
                // Read the closed flag *before* popping: if it was already set,
                // every push happened-before and an empty pop really means
                // "drained". Checking it after the pop could end the stream
                // while a sample pushed in between is still queued.
                let source_closed = self.source_closed.load(Ordering::Acquire);
                let _pop_guard = self.pop_lock.lock();
                if let Some(sample) = self.queue.pop() {
                    return Ok(sample);
                }
'''),
('''                if self.source_closed.load(Ordering::Acquire) {
                    self.ended.store(true, Ordering::SeqCst);''','''                if source_closed {
                    self.ended.store(true, Ordering::SeqCst);'''),
    ])
    patch('src/media/pipeline.rs', [
('''            {
                let _guard = self.pop_lock.lock();
                if let Some(sample) = self.queue.pop() {
                    return Some(sample);
                }
''','''            {
                // Read `closed` before popping so that a sample pushed right
                // before the sender closed is still delivered (see track.rs).
                let closed = self.closed.load(std::sync::atomic::Ordering::Acquire);
                let _guard = self.pop_lock.lock();
                if let Some(sample) = self.queue.pop() {
                    return Some(sample);
                }
'''),
('''                if self.closed.load(std::sync::atomic::Ordering::Acquire) {
                    return None;
                }
            }''','''                if closed {
                    return None;
                }
            }'''),
    ])
