p='src/peer_connection.rs'
s=open(p).read()
# pranswer from the remote side completes the negotiation (forgets that it is provisional)
old='''                    // Do NOT transition to Stable – stay in HaveLocalOffer.
'''
new='''                    let _ = state.send(SignalingState::Stable);
'''
assert s.count(old)==1
open(p,'w').write(s.replace(old,new))
