p='src/peer_connection.rs'
s=open(p).read()
# set_local_description stores the description before validating the transition
old='''    pub fn set_local_description(&self, desc: SessionDescription) -> RtcResult<()> {
        self.inner.validate_sdp_type(&desc.sdp_type)?;
'''
new='''    pub fn set_local_description(&self, desc: SessionDescription) -> RtcResult<()> {
        self.inner.validate_sdp_type(&desc.sdp_type)?;
        if desc.sdp_type == SdpType::Answer {
            *self.inner.local_description.lock() = Some(desc.clone());
        }
'''
assert s.count(old)==1
open(p,'w').write(s.replace(old,new))
