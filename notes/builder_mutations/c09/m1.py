p='src/peer_connection.rs'
s=open(p).read()
old='''                            "set_local_description(answer) requires remote offer".into(),
                        ));
                    }
                    let _ = state.send(SignalingState::Stable);'''
new='''                            "set_local_description(answer) requires remote offer".into(),
                        ));
                    }
                    let _ = state.send(SignalingState::HaveLocalOffer);'''
assert s.count(old)==1
open(p,'w').write(s.replace(old,new))
