p='src/peer_connection.rs'
s=open(p).read()
old='''        if *state.borrow() != SignalingState::HaveRemoteOffer {
            return Err(RtcError::InvalidState(
                "create_answer requires remote offer".into(),
            ));
        }
'''
assert s.count(old)==1
open(p,'w').write(s.replace(old,''))
