#!/bin/bash
# usage: mutate.sh <name> <python-snippet-file>
set -u
W=/tmp/b_c09
name=$1
cd $W/repo && git checkout -- . 
python3 $2 || { echo "MUTATION $name: patch failed"; exit 3; }
git diff --stat | tail -1
cd $W/harness && CARGO_NET_OFFLINE=true cargo build --offline 2>&1 | grep -E "^error" -A8 | head -20
VERIF_ROOT=$W/out_mut timeout 600 $W/target/debug/rtcmon C09 --tier quick > $W/out_mut/mut_$name.log 2>&1
echo "MUTATION $name exit=$?"
grep -E "^  key=" $W/out_mut/mut_$name.log | head -8
grep SUMMARY $W/out_mut/mut_$name.log
cd $W/repo && git checkout -- .
