p='src/peer_connection.rs'
s=open(p).read()
# rollback silently accepted for remote descriptions
old='''            _ => Err(RtcError::NotImplemented("rollback")),'''
new='''            _ => Ok(()),'''
assert s.count(old)==1
s=s.replace(old,new)
old='''                SdpType::Rollback => {
                    return Err(RtcError::NotImplemented("rollback"));
                }
            }
        }

        if previous_remote.is_some() && !media_parameters_changed {'''
new='''                SdpType::Rollback => {
                    return Ok(());
                }
            }
        }

        if previous_remote.is_some() && !media_parameters_changed {'''
assert s.count(old)==1
open(p,'w').write(s.replace(old,new))
