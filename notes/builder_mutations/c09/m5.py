p='src/peer_connection.rs'
s=open(p).read()
# close() forgets the signaling state
old='''        let _ = self.signaling_state.send(SignalingState::Closed);
'''
assert s.count(old)==1
open(p,'w').write(s.replace(old,''))
