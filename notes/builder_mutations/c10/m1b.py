p='/tmp/b_c10/repo/src/peer_connection.rs'
s=open(p).read()
old="""                (server_key, server_salt, client_key, client_salt)
            };

            let tx_keying = crate::srtp::SrtpKeyingMaterial::new(tx_key.to_vec(), tx_salt.to_vec());"""
assert s.count(old)==1
open(p,'w').write(s.replace(old,"""                (client_key, client_salt, server_key, server_salt)
            };

            let tx_keying = crate::srtp::SrtpKeyingMaterial::new(tx_key.to_vec(), tx_salt.to_vec());"""))
