p='/tmp/b_c10/repo/src/peer_connection.rs'
s=open(p).read()
old="""                    &desc.media_sections[*section_idx],
                    media_index == 0,
                    remote_addr,"""
assert s.count(old)==1
open(p,'w').write(s.replace(old,"""                    &desc.media_sections[*section_idx],
                    media_index != 0,
                    remote_addr,"""))
