p='/tmp/b_c10/repo/src/peer_connection.rs'
s=open(p).read()
old='''                                    "passive" => true,'''
assert s.count(old)==1
open(p,'w').write(s.replace(old,'''                                    "passive" => false,'''))
