p='/tmp/b_c10/repo/src/transports/sctp.rs'
s=open(p).read()
old="""            let mut buffer = dc.reassembly_buffer.lock();
            if b_bit {"""
assert s.count(old)==1
open(p,'w').write(s.replace(old,"""            let mut buffer = dc.reassembly_buffer.lock();
            if e_bit {"""))
