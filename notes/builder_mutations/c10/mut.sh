#!/bin/bash
# usage: mut.sh <name> <python-edit-snippet-file>
W=/tmp/b_c10
name=$1; edit=$2
cd $W/repo && git checkout -- . && python3 $edit || { echo "EDIT FAILED $name"; exit 9; }
git diff --stat | tail -1
cd $W/harness && CARGO_NET_OFFLINE=true cargo build --offline 2>&1 | grep -E "^error" -A 8 | head -20
mkdir -p $W/out_mut && cp /tmp/b_c10/known_findings_proposed.json $W/out_mut/known_findings.json
cd $W && ( time VERIF_ROOT=$W/out_mut ./target/debug/rtcmon C10 --tier quick --no-minimise ) > $W/out_mut/$name.log 2>&1
echo "MUTATION $name exit=$(grep -o 'exit=[0-9]' $W/out_mut/$name.log)"; grep -E "SUMMARY|real" $W/out_mut/$name.log; grep -E "^  key=" $W/out_mut/$name.log | sed 's/.*fail=//' | sort | uniq -c | sort -rn | head -8
cd $W/repo && git checkout -- .
