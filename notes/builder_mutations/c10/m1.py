p='/tmp/b_c10/repo/src/peer_connection.rs'
s=open(p).read()
old="            let (tx_key, tx_salt, rx_key, rx_salt) = if is_client {"
assert s.count(old)==1
open(p,'w').write(s.replace(old,"            let (tx_key, tx_salt, rx_key, rx_salt) = if !is_client {"))
