import sys,subprocess
P='/tmp/b_c18/repo/src/transports/ice/conn.rs'
M={
 'M1_sticky_guard_dropped': ('} else if !self.rtp_latched.load(Ordering::Relaxed) && packet.len() >= 12 {','} else if packet.len() >= 12 {'),
 'M2_ssrc_cmp_ge': ('let ssrc_ok = expected == 0 || pkt_ssrc == expected;','let ssrc_ok = expected == 0 || pkt_ssrc >= expected;'),
 'M3_rtcp_once_dropped': ('''                        && addr != current_rtcp_remote
                        && !self.rtcp_latched.load(Ordering::Relaxed)
''','''                        && addr != current_rtcp_remote
'''),
 'M4_deadline_off_by_one': ('} else if total >= prob.max_packets {','} else if total > prob.max_packets {'),
 'M5_pair_guard_inverted': ('''            && self.rtp_latched.load(Ordering::Relaxed)
            && current != addr
        {''','''            && self.rtp_latched.load(Ordering::Relaxed)
            && current == addr
        {'''),
 'M6_tiebreak_swapped': ('.then(b.first_seq.cmp(&a.first_seq))','.then(a.first_seq.cmp(&b.first_seq))'),
 'M7_run_threshold_1': ('.find(|c| c.consecutive_count >= 2)','.find(|c| c.consecutive_count >= 1)'),
 'M8_reset_keeps_flag': ('''    pub fn reset_latch(&self) {
        self.rtp_latched.store(false, Ordering::Relaxed);''','''    pub fn reset_latch(&self) {'''),
 'M9_run_not_reset': ('''                                    // Non-sequential — reset run
                                    c.consecutive_count = 0;''','''                                    // Non-sequential — reset run'''),
 'M10_rtcp_moves_rtp': ('''                        *remote_rtcp_addr = Some(addr);
                        self.rtcp_latched.store(true, Ordering::Relaxed);''','''                        *remote_rtcp_addr = Some(addr);
                        *self.remote_addr.write() = addr;
                        self.rtcp_latched.store(true, Ordering::Relaxed);'''),
 'M11_marker_ignored_when_not_first': ('.filter(|c| c.has_marker)','.filter(|c| c.has_marker && c.packet_count == 1)'),
 'M12_legacy_latch_flag_missing': ('''                                *self.remote_addr.write() = addr;
                            }
                            self.rtp_latched.store(true, Ordering::Relaxed);
                            trace!(
                                "IceConn: RTP latched to {} immediately''','''                                *self.remote_addr.write() = addr;
                            }
                            trace!(
                                "IceConn: RTP latched to {} immediately'''),
}
name=sys.argv[1]
old,new=M[name]
s=open(P).read()
assert s.count(old)==1,(name,s.count(old))
open(P,'w').write(s.replace(old,new))
