#!/bin/bash
# usage: mutrun.sh <mutation-name>
set -u
W=/tmp/b_c18
git -C $W/repo checkout -- . 
python3 $W/mutate.py $1 || exit 9
(cd $W/harness && CARGO_NET_OFFLINE=true cargo build --offline 2>&1 | grep -E '^error' -A8)
VERIF_ROOT=$W/out_mut $W/target/debug/rtcmon C18 --tier quick > $W/out_mut/$1.log 2>&1
echo "$1 exit=$? keys: $(grep -E '^  key=' $W/out_mut/$1.log | sort -u | tr '\n' ' ') | $(grep SUMMARY $W/out_mut/$1.log | sed 's/.*wall_s/wall_s/')"
git -C $W/repo checkout -- .
