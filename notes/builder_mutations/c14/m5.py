p='/tmp/b_c14/repo/src/transports/rtp.rs'
s=open(p).read()
old='''        let Some(session) = session else {
            if self.srtp_required {
                return Err(anyhow::anyhow!("SRTP required but session not ready"));
            }'''
assert old in s
s=s.replace(old,'''        let Some(session) = session else {
            if !self.srtp_required {
                return Err(anyhow::anyhow!("SRTP required but session not ready"));
            }''')
open(p,'w').write(s)
