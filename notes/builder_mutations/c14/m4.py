p='/tmp/b_c14/repo/src/transports/rtp.rs'
s=open(p).read()
old='''                            Err(e) => {
                                debug!("SRTP unprotect RTCP failed: {}", e);
                                return;
                            }'''
assert old in s
s=s.replace(old,'''                            Err(e) => {
                                debug!("SRTP unprotect RTCP failed: {}", e);
                                packet.clone()
                            }''')
open(p,'w').write(s)
