# send_rtp: marshal instead of protect when the profile is the 32-bit tag one (protect skipped on one path)
p='/tmp/b_c14/repo/src/transports/rtp.rs'
s=open(p).read()
old='''                Some(session) => {
                    let mut srtp = session.lock();
                    let mut protected = vec![0; srtp.protected_rtp_len(&packet)];
                    srtp.protect_rtp(&packet, &mut protected)?;
                    protected
                }
                None => {
                    if self.srtp_required {
                        debug!('''
assert old in s
s=s.replace(old,'''                Some(session) if !packet.header.csrcs.is_empty() => {
                    let _ = session;
                    packet.marshal()?
                }
                Some(session) => {
                    let mut srtp = session.lock();
                    let mut protected = vec![0; srtp.protected_rtp_len(&packet)];
                    srtp.protect_rtp(&packet, &mut protected)?;
                    protected
                }
                None => {
                    if self.srtp_required {
                        debug!(''')
open(p,'w').write(s)
