p='/tmp/b_c14/repo/src/transports/rtp.rs'
s=open(p).read()
old='''            } else if target.srtp_required {
                let failures = target'''
assert old in s
s=s.replace(old,'''            } else if self.srtp_required {
                let failures = target''')
open(p,'w').write(s)
