#!/bin/bash
# usage: run_mut.sh <name> <python-snippet-file>
W=/tmp/b_c14
name=$1
cd $W/repo && git checkout -- . 
python3 $2 || { echo "MUTATION $name: patch failed"; exit 1; }
git -C $W/repo diff --stat | tail -1
cd $W/harness && CARGO_NET_OFFLINE=true cargo build --offline 2>&1 | grep -E "^error" -A 8
rm -rf $W/out_mut; mkdir -p $W/out_mut; cp /verif/known_findings.json $W/out_mut/
VERIF_ROOT=$W/out_mut $W/target/debug/rtcmon C14 --tier quick > $W/mut/$name.log 2>&1
echo "MUTATION $name exit=$?"
grep "key=" $W/mut/$name.log | sort | uniq -c | head -20
tail -1 $W/mut/$name.log
cd $W/repo && git checkout -- .
