p='/tmp/b_c14/repo/src/srtp.rs'
s=open(p).read()
old='''                if !constant_time_eq(&packet.body[split..], &result[..tag_len]) {
                    return Err(SrtpError::AuthenticationFailed);
                }'''
assert old in s
s=s.replace(old,'''                if !constant_time_eq(&packet.body[split..split + 1], &result[..1]) {
                    return Err(SrtpError::AuthenticationFailed);
                }''')
open(p,'w').write(s)
