p='/tmp/b_c14/repo/src/transports/rtp.rs'
s=open(p).read()
old='''                    None => {
                        if self.srtp_required {
                            trace!(
                                "Dropping packet because SRTP is required but session is not ready"
                            );
                            return;
                        }
                        match RtpPacket::parse_bytes(packet) {'''
assert old in s
s=s.replace(old,'''                    None => {
                        match RtpPacket::parse_bytes(packet) {''')
open(p,'w').write(s)
