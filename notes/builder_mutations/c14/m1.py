p='/tmp/b_c14/repo/src/transports/rtp.rs'
s=open(p).read()
old='''            } else if self.srtp_required {
                return;
            }
        }
        let _ = self.ice_conn().try_send(&raw);'''
assert old in s
s=s.replace(old,'''            }
        }
        let _ = self.ice_conn().try_send(&raw);''')
open(p,'w').write(s)
