import sys,subprocess,re
W='/tmp/b_c0405'
muts={
 'M1_update_before_auth':('C05',"""        let roc = self.estimate_roc(sequence_number);
        packet.marshal_header_into(&mut self.auth_scratch);
""","""        let roc = self.estimate_roc(sequence_number);
        self.update(sequence_number, roc);
        packet.marshal_header_into(&mut self.auth_scratch);
"""),
 'M2_roc_boundary_le':('C04',"        if diff < -32768 {","        if diff <= -32768 {"),
 'M3_tag_compare_skips_last_byte':('C05',"if !constant_time_eq(&packet.body[split..], &result[..tag_len]) {","if !constant_time_eq(&packet.body[split..split + tag_len - 1], &result[..tag_len - 1]) {"),
 'M4_iv_without_ssrc':('C04',"""        block[4..8].copy_from_slice(&self.ssrc.to_be_bytes());

        // IV = (salt * 2^16) XOR (SSRC * 2^64) XOR (Index * 2^16)
        let iv_part""","""
        // IV = (salt * 2^16) XOR (SSRC * 2^64) XOR (Index * 2^16)
        let iv_part"""),
 'M5_rtcp_salt_label':('C04',"let rtcp_salt = Self::kdf(salt_len, 0x05,","let rtcp_salt = Self::kdf(salt_len, 0x02,"),
 'M6_gcm_rtcp_aad_without_ebit':('C04',None,None),
 'M8_gcm_rtp_no_aad':('C05',None,None),
 'M9_rtcp_index_update_before_verify':('C05',"""        // Split tag
        let split = packet.len() - tag_len;""","""        {
            let t = packet.len() - tag_len - 4;
            let w = u32::from_be_bytes([packet[t], packet[t + 1], packet[t + 2], packet[t + 3]]) & 0x7FFF_FFFF;
            if w > self.rtcp_index {
                self.rtcp_index = w;
            }
        }
        // Split tag
        let split = packet.len() - tag_len;"""),
 'M10_rtcp_index_low16_in_iv':('C04',"        block[10..14].copy_from_slice(&index.to_be_bytes());","        block[12..14].copy_from_slice(&(index as u16).to_be_bytes());"),
 'M11_null_cipher_mac_without_roc':('C04',None,None),
 'M12_swap_tx_rx_keys':('C04',"""                self.rx_keying.clone(),
                SrtpDirection::Receiver,
            )?),
        };
        ctx.last_used = std::time::Instant::now();
        ctx.unprotect(packet)""","""                self.tx_keying.clone(),
                SrtpDirection::Receiver,
            )?),
        };
        ctx.last_used = std::time::Instant::now();
        ctx.unprotect(packet)"""),
 'M13_update_never_advances_within_roc':('C04',"        if new_index > current_index {","        if new_index > current_index && roc != self.rollover_counter {"),
}
def apply(name):
    p=W+'/repo/src/srtp.rs'; s=open(p).read()
    prop,a,b=muts[name]
    if name=='M6_gcm_rtcp_aad_without_ebit':
        a="aad.extend_from_slice(&index_with_e.to_be_bytes());"; b="aad.extend_from_slice(&index.to_be_bytes());"
        assert s.count(a)==2; s=s.replace(a,b)
    elif name=='M8_gcm_rtp_no_aad':
        a=".encrypt_in_place_detached(Nonce::from_slice(&nonce), header, body)"; b=".encrypt_in_place_detached(Nonce::from_slice(&nonce), &header[..0], body)"
        assert s.count(a)==1; s=s.replace(a,b)
        a="""                    &self.auth_scratch,
                    &mut packet.body,"""; b="""                    &self.auth_scratch[..0],
                    &mut packet.body,"""
        assert s.count(a)==1; s=s.replace(a,b)
    elif name=='M11_null_cipher_mac_without_roc':
        a="            mac.update(&roc.to_be_bytes());\n            let result = mac.finalize().into_bytes();\n            output[body_end..]"
        b="            if encrypts { mac.update(&roc.to_be_bytes()); }\n            let result = mac.finalize().into_bytes();\n            output[body_end..]"
        assert s.count(a)==1; s=s.replace(a,b)
        a="                mac.update(&roc.to_be_bytes());\n                let result = mac.finalize().into_bytes();\n                if !constant_time_eq"
        b="                if !matches!(self._profile, SrtpProfile::NullCipherHmac) { mac.update(&roc.to_be_bytes()); }\n                let result = mac.finalize().into_bytes();\n                if !constant_time_eq"
        assert s.count(a)==1; s=s.replace(a,b)
    else:
        assert s.count(a)==1,(name,s.count(a)); s=s.replace(a,b)
    open(p,'w').write(s)
    return prop
base={'C04':set(),'C05':set()}
def run(prop):
    r=subprocess.run(f"cd {W}/harness && CARGO_NET_OFFLINE=true cargo build --offline 2>&1 | grep -E '^error' -A8; cd {W} && VERIF_ROOT={W}/out_mut target/debug/rtcmon {prop} --tier quick; echo EXIT=$?",shell=True,capture_output=True,text=True)
    keys=set(re.findall(r"^  key=(.*)$",r.stdout,re.M))
    ex=re.findall(r"EXIT=(\d+)",r.stdout)
    err=[l for l in r.stdout.splitlines() if l.startswith('error')]
    return keys,ex,err
names=sys.argv[1:] or list(muts)
for prop in ('C04','C05'):
    subprocess.run(f"git -C {W}/repo checkout -- .",shell=True)
    base[prop],_,_=run(prop)
for n in names:
    subprocess.run(f"git -C {W}/repo checkout -- .",shell=True)
    prop=apply(n)
    for pr in ([prop] if prop=='C04' else ['C05','C04'] if n in('M8_gcm_rtp_no_aad',) else [prop]):
        keys,ex,err=run(pr)
        new=sorted(keys-base[pr])
        print(f"{n} [{pr}] exit={ex} build_err={err[:1]} NEW_KEYS={len(new)}")
        for k in new[:6]: print("     +",k)
subprocess.run(f"git -C {W}/repo checkout -- .",shell=True)
