#!/bin/bash
# mutations on top of fix_1.diff; each: apply, build, quick, record, restore
W=/tmp/b_c06
cd $W/repo
restore() { git -C $W/repo checkout -- . && git -C $W/repo apply $W/fix_1.diff; }
mutate() { # name file old new
python3 - "$2" "$3" "$4" <<'PY'
import sys
p,old,new=sys.argv[1:4]
s=open(p).read()
assert s.count(old)==1, (p, old, s.count(old))
open(p,'w').write(s.replace(old,new))
PY
}
runq() {
  name=$1
  (cd $W/harness && CARGO_NET_OFFLINE=true cargo build --offline 2>&1 | grep -E "^error" )
  VERIF_ROOT=$W/out $W/target/debug/rtcmon C06 --tier quick > $W/mut/$name.log 2>&1
  echo "$name exit=$? $(grep SUMMARY $W/mut/$name.log | grep -o 'held=.*')" >> $W/mut/results.txt
  grep "^  key=" $W/mut/$name.log | sed 's/^  key=//' | sort | head -40 > $W/mut/$name.keys
  echo "   keys: $(wc -l < $W/mut/$name.keys)  e.g. $(head -2 $W/mut/$name.keys | tr '\n' ' ')" >> $W/mut/results.txt
}
: > $W/mut/results.txt
restore
# M1 username check dropped
mutate M1 src/transports/ice/mod.rs 'if !username_ok || !msg.check_integrity(packet, local.password.as_bytes()) {' 'if !msg.check_integrity(packet, local.password.as_bytes()) { let _ = username_ok;'
runq M1_no_username_check; restore
# M2 missing MESSAGE-INTEGRITY accepted
mutate M2 src/transports/ice/stun.rs '        let Some(off) = self.integrity_offset else {
            return false;
        };' '        let Some(off) = self.integrity_offset else {
            return true;
        };'
runq M2_missing_mi_accepted; restore
# M3 ufrag prefix without the colon
mutate M3 src/transports/ice/mod.rs '.is_some_and(|rest| rest.starts_with(':'));' '.is_some();'
runq M3_username_prefix_only; restore
# M4 HMAC compared on the first 4 bytes only
mutate M4 src/transports/ice/stun.rs 'mac.verify_slice(&packet[off + 4..off + 24]).is_ok()' 'mac.verify_truncated_left(&packet[off + 4..off + 8]).is_ok()'
runq M4_mi_truncated_compare; restore
# M5 credentials only demanded when USE-CANDIDATE is present
mutate M5 src/transports/ice/mod.rs '    if inner.config.transport_mode == crate::TransportMode::WebRtc {
        let local = inner.local_parameters.lock().clone();' '    if inner.config.transport_mode == crate::TransportMode::WebRtc && msg.use_candidate {
        let local = inner.local_parameters.lock().clone();'
runq M5_check_only_with_use_candidate; restore
# M6 responses: unknown transaction id is handed to some pending transaction, and the waiter does not re-check the id
mutate M6a src/transports/ice/mod.rs '                    if let Some(tx) = map.remove(&msg.transaction_id) {
                        let _ = tx.send(msg);
                    } else {
                        trace!(' '                    if let Some(tx) = map.remove(&msg.transaction_id) {
                        let _ = tx.send(msg);
                    } else if let Some(k) = map.keys().next().copied() {
                        if let Some(tx) = map.remove(&k) { let _ = tx.send(msg); }
                    } else {
                        trace!('
python3 - <<'PY'
p='/tmp/b_c06/repo/src/transports/ice/mod.rs'
s=open(p).read()
old='''                if parsed.transaction_id != tx_id {
                    bail!("binding response transaction mismatch");
                }'''
assert s.count(old)==2
s=s.replace(old,'')
open(p,'w').write(s)
PY
runq M6_unknown_txid_response_honoured; restore
# M7 HMAC taken over the message without adjusting the header length (accepts nothing valid -> controls fail)
mutate M7 src/transports/ice/stun.rs '        write_length_field(&mut covered, off - 20 + 24);' '        // length not adjusted'
runq M7_length_not_adjusted; restore
# M8 the ignore-after-MESSAGE-INTEGRITY rule dropped (information only: statement does not cover it)
mutate M8 src/transports/ice/stun.rs '        if integrity_offset.is_some() {
            offset += len + (4 - (len % 4)) % 4;
            continue;
        }' ''
runq M8_attrs_after_mi_parsed
grep -o '"use_candidate_after_message_integrity_honoured(info)": [0-9]*' $W/out/evidence/C06.json >> $W/mut/results.txt
restore
(cd $W/harness && CARGO_NET_OFFLINE=true cargo build --offline 2>&1 | grep -E "^error|Finished")
echo ALLDONE >> $W/mut/results.txt
